#!/bin/bash
# Independently confirm every sub-agent seed: patch applies to clean HEAD, suite passes with it,
# demo fails with it, demo passes without it. Writes /tmp/seed/verify.log and copies confirmed
# seeds to /verif/seeded/<id>/.
export GOFLAGS=-mod=mod GOPROXY=off
WT=/tmp/seed2/_verify
ROUND=${1:?round tag, e.g. r4}; shift; LOG=/tmp/seed2/verify_$ROUND.log
: > $LOG
git -C /repo worktree remove --force $WT 2>/dev/null
git -C /repo worktree add -q --detach $WT HEAD
for d in $(for a in "$@"; do ls -d /tmp/seed2/$a/_seed/*/; done); do
  aid=$(basename $(dirname $(dirname $d))); n=$(basename $d); pid=$(python3 -c "import json;print(json.load(open(\"$d/meta.json\"))[\"property\"])"); id=${pid}-${ROUND}${aid}-$n
  [ -f $d/patch.diff ] || { echo "$id MISSING patch" >> $LOG; continue; }
  pkg=$(python3 -c "import json,sys;print(json.load(open('$d/meta.json')).get('demo_pkg','').strip('/'))" 2>/dev/null)
  [ -z "$pkg" ] && pkg=$(head -3 $d/demo_test.go | grep -o 'copy to: *[^ ]*' | sed 's/copy to: *//' | sed 's:/$::')
  pkg=${pkg#./}
  cd $WT && git checkout -q -- . && git clean -fdq
  if ! git apply $d/patch.diff 2>>$LOG; then echo "$id APPLY-FAIL" >> $LOG; continue; fi
  suite=$(go test -vet=off -count=1 ./... 2>&1 | grep -v '^ok' | grep -v 'no test files' | head -5)
  [ -z "$suite" ] && s1=suite-pass || s1="suite-FAIL"
  cp $d/demo_test.go $WT/$pkg/zz_seed_demo_test.go
  race=""; grep -q '"-race\|-race' $d/meta.json && race="-race"
  if go test -vet=off -count=1 $race -timeout 300s ./$pkg/ > /tmp/seed2/demo_$id.with.log 2>&1; then s2="demo-with-PASS(bad)"; else s2=demo-with-fail; fi
  git checkout -q -- . ; git apply -R $d/patch.diff 2>/dev/null; git checkout -q -- .
  git clean -fdq -e '*zz_seed_demo_test.go' ; git status --short | grep -v zz_seed_demo >> $LOG
  if go test -vet=off -count=1 $race -timeout 300s ./$pkg/ > /tmp/seed2/demo_$id.without.log 2>&1; then s3=demo-without-pass; else s3="demo-without-FAIL(bad)"; fi
  rm -f $WT/$pkg/zz_seed_demo_test.go
  git clean -fdq
  echo "$id $pkg $s1 $s2 $s3" >> $LOG
  if [ "$s1 $s2 $s3" = "suite-pass demo-with-fail demo-without-pass" ]; then
    mkdir -p /verif/seeded/$id && cp $d/patch.diff $d/demo_test.go $d/meta.json /verif/seeded/$id/
  fi
done
cd / && git -C /repo worktree remove --force $WT
echo DONE >> $LOG
