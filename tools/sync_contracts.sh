#!/bin/bash
# gofmt the contract files in /repo and copy them to the mirror under /verif/contracts/mirror
cd /repo && gofmt -w codec/zz_contracts_verif.go */messages/zz_contracts_verif.go
for d in codec bjse-trade-bin/messages risk-bin/messages sample-bin/messages sse-bin/messages szse-bin/messages; do
  mkdir -p /verif/contracts/mirror/$d; cp /repo/$d/zz_contracts_verif.go /verif/contracts/mirror/$d/
done
