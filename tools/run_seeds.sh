#!/bin/bash
# Runs the quick check of each seed's property against /repo with the seeded change applied,
# then restores /repo. Usage: tools/run_seeds.sh [seed-id ...]   (default: all under /verif/seeded)
cd /verif
ids="$@"; [ -z "$ids" ] && ids=$(ls seeded)
mkdir -p /tmp/seedruns; export VERIF_OUT=/tmp/seedruns/out
for id in $ids; do
  d=seeded/$id; prop=${id%%-*}
  [ -f $d/patch.diff ] || continue
  git -C /repo checkout -q -- . ; git -C /repo clean -fdq
  if ! git -C /repo apply $PWD/$d/patch.diff 2>/tmp/seedruns/$id.apply; then echo "$id APPLY-FAIL"; continue; fi
  props="$prop"; [ -n "$EXTRA_PROPS" ] && props="$prop $EXTRA_PROPS"
  res=""
  for p in $props; do
    timeout 900 ./check $p quick > /tmp/seedruns/$id.$p.out 2>&1; rc=$?
    n=$(grep -c '^VIOLATION' /tmp/seedruns/$id.$p.out)
    first=$(grep -m1 '^VIOLATION' /tmp/seedruns/$id.$p.out | sed 's/.*obligation=//' | cut -c1-110)
    res="$res $p:rc=$rc,viol=$n[$first]"
  done
  echo "$id$res"
  git -C /repo checkout -q -- . ; git -C /repo clean -fdq
done
