#!/bin/bash
# Applies each behaviour-preserving refactoring under /verif/selftest/benign (dirs with patch.diff) to a scratch
# copy of /repo and runs the quick checks given in $PROPS (default: all 20); every check must stay quiet (exit 0).
# usage: tools/run_benign.sh [id...]      (PAR=4 patches in parallel)
cd /verif
export GOFLAGS=-mod=mod GOPROXY=off
PROPS=${PROPS:-"C01 C02 C03 C04 C05 C06 C07 C08 C09 C10 C11 C12 C13 C14 C15 C16 C17 C18 C19 C20"}
ids="$@"; [ -z "$ids" ] && ids=$(ls selftest/benign)
one() {
  id=$1; d=/verif/selftest/benign/$id
  S=$(mktemp -d /tmp/verif-benign.XXXXXX)
  cp -a /repo/. "$S"/
  if ! (cd "$S" && git apply $d/patch.diff 2>/dev/null); then echo "$id APPLY-FAIL"; find "${S:?}" -mindepth 1 -delete; rmdir "$S"; return; fi
  res=""
  for p in $PROPS; do
    VERIF_REPO="$S" VERIF_OUT="$S/.verif-out" timeout 900 ./bin/gocv check $p quick > "$S/.out" 2>&1; rc=$?
    [ $rc -ne 0 ] && res="$res $p:rc=$rc[$(grep -m1 -E '^VIOLATION|MACHINERY' "$S/.out" | sed 's/.*obligation=//' | cut -c1-110)]"
  done
  echo "$id ${res:-quiet}"
  find "${S:?}" -mindepth 1 -delete; rmdir "$S"
}
export -f one; export PROPS
echo $ids | tr ' ' '\n' | xargs -P ${PAR:-4} -I{} bash -c 'one {}'
