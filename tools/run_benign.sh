#!/bin/bash
# Applies each behaviour-preserving refactoring under $1 (dirs with patch.diff) to /repo and runs
# the quick checks given in $PROPS; every check must stay quiet (exit 0).
cd /verif
root=${1:-/tmp/seed2}
export VERIF_OUT=/tmp/seedruns/out
PROPS=${PROPS:-"C01 C08 C09 C10 C13 C17 C18 C06 C16 C20"}
for d in $root/B*/_seed/*/ $root/B*-*/; do
  id=$(echo $d | sed "s:.*/\(B[0-9]\)/_seed/\([0-9]*\)/:\1-\2:; s:.*/\(B[0-9]*-[0-9]*\)/$:\1:")
  git -C /repo checkout -q -- . ; git -C /repo clean -fdq
  if ! git -C /repo apply $d/patch.diff 2>/dev/null; then echo "$id APPLY-FAIL"; continue; fi
  res=""
  for p in $PROPS; do
    ./check $p quick > /tmp/seedruns/benign.$id.$p.out 2>&1; rc=$?
    [ $rc -ne 0 ] && res="$res $p:rc=$rc[$(grep -m1 -E '^VIOLATION|MACHINERY' /tmp/seedruns/benign.$id.$p.out | sed 's/.*obligation=//' | cut -c1-100)]"
  done
  echo "$id ${res:-quiet}"
  git -C /repo checkout -q -- . ; git -C /repo clean -fdq
done
