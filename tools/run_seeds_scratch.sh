#!/bin/bash
# Like run_seeds.sh, but applies each seed to a scratch copy of /repo (nothing in /repo is touched).
cd /verif
export GOFLAGS=-mod=mod GOPROXY=off
ids="$@"; [ -z "$ids" ] && ids=$(ls seeded)
for id in $ids; do
  d=seeded/$id; prop=${id%%-*}
  [ -f $d/patch.diff ] || continue
  S=$(mktemp -d /tmp/verif-seedrun.XXXXXX)
  cp -a /repo/. "$S"/
  if ! (cd "$S" && git apply /verif/$d/patch.diff 2>/dev/null); then echo "$id APPLY-FAIL"; find "${S:?}" -mindepth 1 -delete; rmdir "$S"; continue; fi
  VERIF_REPO="$S" VERIF_OUT="$S/.verif-out" timeout 900 ./bin/gocv check $prop quick > "$S/.out" 2>&1; rc=$?
  n=$(grep -c '^VIOLATION' "$S/.out")
  first=$(grep -m1 '^VIOLATION' "$S/.out" | sed 's/.*obligation=//' | cut -c1-120)
  ni=$(grep '^VIOLATION' "$S/.out" | grep -vc 'no-failing-input-found')
  echo "$id $prop:rc=$rc,viol=$n,with-input=$ni[$first]"
  find "${S:?}" -mindepth 1 -delete; rmdir "$S"
done
