#!/bin/bash
# tools/run_all.sh [tier] : runs every property's check once and prints one summary line each
cd "$(dirname "$0")/.."
tier=${1:-quick}
for i in $(seq -w 1 20); do
  out=$(./check C$i $tier 2>&1); rc=$?
  echo "rc=$rc $(echo "$out" | tail -1)"
  echo "$out" | grep -E "^(VIOLATION|KNOWN-FINDING)" | head -3
done
