//go:build verif

// Pinned wire layouts and discriminator tables of package risk_bin for the gocv verifier (/verif).
// Comments only. Each layout lists, per Encode path, the byte segments written (as contract
// expressions over the field names) and the fields the encoder writes back; it was produced by
// `gocv bootstrap` from the pinned tree and is from then on the specification the code is checked
// against (DESIGN.md 6.2). A byte-identical mirror is kept under /verif/contracts/mirror.

package risk_bin

//@ table rcBinaryMsgTypeFactoryCache : int
//@   100101->NewOrder
//@   200102->OrderConfirm
//@   200115->ExecutionReport
//@   190007->OrderCancel
//@   290008->CancelReject
//@   800001->RiskResult

//@ layout CancelReject [proto risk_v0.1.0, BE]
//@   path always
//@     seg encw(BE, 4, len(UniqueOrderId))
//@     seg UniqueOrderId
//@     seg encw(BE, 4, len(UniqueOrigOrderId))
//@     seg UniqueOrigOrderId
//@     seg encw(BE, 4, len(ClOrdId))
//@     seg ClOrdId
//@     seg encw(BE, 4, len(OrigClOrdId))
//@     seg OrigClOrdId
//@     seg encw(BE, 4, CxlRejReason)

//@ layout ExecutionReport [proto risk_v0.1.0, BE]
//@   path always
//@     seg encw(BE, 4, len(UniqueOrderId))
//@     seg UniqueOrderId
//@     seg encw(BE, 4, len(ClOrdId))
//@     seg ClOrdId
//@     seg encw(BE, 4, len(OrdCnfmId))
//@     seg OrdCnfmId
//@     seg encw(BE, 8, LastPx)
//@     seg encw(BE, 8, LastQty)
//@     seg fixed(OrdStatus, 1, 32, R)

//@ layout NewOrder [proto risk_v0.1.0, BE]
//@   path always
//@     seg encw(BE, 4, len(UniqueOrderId))
//@     seg UniqueOrderId
//@     seg encw(BE, 4, len(ClOrdId))
//@     seg ClOrdId
//@     seg encw(BE, 4, len(SecurityId))
//@     seg SecurityId
//@     seg fixed(Side, 1, 32, R)
//@     seg encw(BE, 8, Price)
//@     seg encw(BE, 8, OrderQty)
//@     seg fixed(OrdType, 1, 32, R)
//@     seg encw(BE, 4, len(Account))
//@     seg Account

//@ layout OrderCancel [proto risk_v0.1.0, BE]
//@   path always
//@     seg encw(BE, 4, len(UniqueOrderId))
//@     seg UniqueOrderId
//@     seg encw(BE, 4, len(UniqueOrigOrderId))
//@     seg UniqueOrigOrderId
//@     seg encw(BE, 4, len(ClOrdId))
//@     seg ClOrdId
//@     seg encw(BE, 4, len(OrigClOrdId))
//@     seg OrigClOrdId
//@     seg encw(BE, 4, len(SecurityId))
//@     seg SecurityId

//@ layout OrderConfirm [proto risk_v0.1.0, BE]
//@   path always
//@     seg encw(BE, 4, len(UniqueOrderId))
//@     seg UniqueOrderId
//@     seg encw(BE, 4, len(UniqueOrigOrderId))
//@     seg UniqueOrigOrderId
//@     seg encw(BE, 4, len(ClOrdId))
//@     seg ClOrdId
//@     seg fixed(ExecType, 1, 32, R)
//@     seg encw(BE, 4, OrdRejReason)
//@     seg encw(BE, 4, len(OrdCnfmId))
//@     seg OrdCnfmId

//@ layout RcBinary [proto risk_v0.1.0, BE, frame len=MsgBodyLen body=Body]
//@   dyn Body by MsgType in rcBinaryMsgTypeFactoryCache
//@   path Body != nil
//@     seg encw(BE, 4, MsgType)
//@     seg encw(BE, 4, Version)
//@     seg encw(BE, 4, (len(Wd(Body.tag, Body.mv)) % pow2(32)))
//@     seg Wd(Body.tag, Body.mv)
//@     post MsgBodyLen == (len(Wd(Body.tag, Body.mv)) % pow2(32))
//@   path Body == nil
//@     seg encw(BE, 4, MsgType)
//@     seg encw(BE, 4, Version)
//@     seg encw(BE, 4, 0)
//@     post MsgBodyLen == 0

//@ layout RiskResult [proto risk_v0.1.0, BE]
//@   path always
//@     seg encw(BE, 4, len(UniqueOrderId))
//@     seg UniqueOrderId
//@     seg encw(BE, 1, RiskStatus)
//@     seg encw(BE, 4, len(RiskReason))
//@     seg RiskReason
