//go:build verif

// Pinned wire layouts and discriminator tables of package szse_bin for the gocv verifier (/verif).
// Comments only. Each layout lists, per Encode path, the byte segments written (as contract
// expressions over the field names) and the fields the encoder writes back; it was produced by
// `gocv bootstrap` from the pinned tree and is from then on the specification the code is checked
// against (DESIGN.md 6.2). A byte-identical mirror is kept under /verif/contracts/mirror.

package szse_bin

//@ table executionConfirmApplIdFactoryCache : string
//@   "010"->Extend200102
//@   "020"->Extend200202
//@   "030"->Extend200302
//@   "051"->Extend200502
//@   "052"->Extend200502
//@   "060"->Extend200602
//@   "061"->Extend200602
//@   "070"->Extend200702
//@   "150"->Extend201502
//@   "151"->Extend201502
//@   "152"->Extend201502
//@   "160"->Extend201602
//@   "170"->Extend201702
//@   "180"->Extend201802
//@   "181"->Extend201802
//@   "270"->Extend202702
//@   "271"->Extend202702
//@   "280"->Extend202802
//@   "281"->Extend202802
//@   "290"->Extend202902
//@   "291"->Extend202902
//@   "630"->Extend206302
//@   "350"->Extend203502
//@   "351"->Extend203502
//@   "370"->Extend203702
//@   "410"->Extend204102
//@   "417"->Extend204129
//@   "470"->Extend204702

//@ table executionReportApplIdFactoryCache : string
//@   "010"->Extend200115
//@   "020"->Extend200215
//@   "030"->Extend200315
//@   "051"->Extend200515
//@   "052"->Extend200515
//@   "056"->Extend200515
//@   "057"->Extend200515
//@   "060"->Extend200615
//@   "061"->Extend200615
//@   "070"->Extend200715
//@   "630"->Extend206315
//@   "370"->Extend203715
//@   "410"->Extend204115
//@   "412"->Extend204115
//@   "413"->Extend204115
//@   "415"->Extend204115
//@   "416"->Extend204115
//@   "417"->Extend204130
//@   "470"->Extend204715

//@ table newOrderApplIdFactoryCache : string
//@   "010"->Extend100101
//@   "020"->Extend100201
//@   "030"->Extend100301
//@   "051"->Extend100501
//@   "052"->Extend100501
//@   "060"->Extend100601
//@   "061"->Extend100601
//@   "070"->Extend100701
//@   "150"->Extend101501
//@   "151"->Extend101501
//@   "152"->Extend101501
//@   "160"->Extend101601
//@   "170"->Extend101701
//@   "180"->Extend101801
//@   "181"->Extend101801
//@   "270"->Extend102701
//@   "271"->Extend102701
//@   "280"->Extend102801
//@   "281"->Extend102801
//@   "290"->Extend102901
//@   "291"->Extend102901
//@   "630"->Extend106301
//@   "350"->Extend103501
//@   "351"->Extend103501
//@   "370"->Extend103701
//@   "410"->Extend104101
//@   "417"->Extend104128
//@   "470"->Extend104701

//@ table szseBinaryMsgTypeFactoryCache : int
//@   1->Logon
//@   2->Logout
//@   3->Heartbeat
//@   4->BusinessReject
//@   5->ReportSynchronization
//@   6->PlatformStateInfo
//@   7->ReportFinished
//@   9->PlatformPartition
//@   10->TradingSessionStatus
//@   100101->NewOrder
//@   100201->NewOrder
//@   100301->NewOrder
//@   100401->NewOrder
//@   100501->NewOrder
//@   100601->NewOrder
//@   100701->NewOrder
//@   101201->NewOrder
//@   101301->NewOrder
//@   101401->NewOrder
//@   101501->NewOrder
//@   101601->NewOrder
//@   101701->NewOrder
//@   101801->NewOrder
//@   101901->NewOrder
//@   102301->NewOrder
//@   102701->NewOrder
//@   102801->NewOrder
//@   102901->NewOrder
//@   103101->NewOrder
//@   106301->NewOrder
//@   103301->NewOrder
//@   103501->NewOrder
//@   103701->NewOrder
//@   104101->NewOrder
//@   104128->NewOrder
//@   104701->NewOrder
//@   200102->ExecutionConfirm
//@   200202->ExecutionConfirm
//@   200302->ExecutionConfirm
//@   200402->ExecutionConfirm
//@   200502->ExecutionConfirm
//@   200602->ExecutionConfirm
//@   200702->ExecutionConfirm
//@   201202->ExecutionConfirm
//@   201302->ExecutionConfirm
//@   201402->ExecutionConfirm
//@   201502->ExecutionConfirm
//@   201602->ExecutionConfirm
//@   201702->ExecutionConfirm
//@   201802->ExecutionConfirm
//@   201902->ExecutionConfirm
//@   202202->ExecutionConfirm
//@   202302->ExecutionConfirm
//@   202702->ExecutionConfirm
//@   202802->ExecutionConfirm
//@   202902->ExecutionConfirm
//@   203102->ExecutionConfirm
//@   206302->ExecutionConfirm
//@   203302->ExecutionConfirm
//@   203502->ExecutionConfirm
//@   203702->ExecutionConfirm
//@   204102->ExecutionConfirm
//@   204129->ExecutionConfirm
//@   204702->ExecutionConfirm
//@   200115->ExecutionReport
//@   200215->ExecutionReport
//@   200315->ExecutionReport
//@   200415->ExecutionReport
//@   200515->ExecutionReport
//@   200615->ExecutionReport
//@   200715->ExecutionReport
//@   206315->ExecutionReport
//@   203715->ExecutionReport
//@   204115->ExecutionReport
//@   204130->ExecutionReport
//@   190007->OrderCancelRequest
//@   290008->CancelReject

//@ layout BusinessReject [proto szse_bin_v1.29, BE]
//@   path always
//@     seg fixed(ApplId, 3, 32, R)
//@     seg encw(BE, 8, (TransactTime % pow2(64)))
//@     seg fixed(SubmittingPbuid, 6, 32, R)
//@     seg fixed(SecurityId, 8, 32, R)
//@     seg fixed(SecurityIdsource, 4, 32, R)
//@     seg encw(BE, 8, (RefSeqNum % pow2(64)))
//@     seg encw(BE, 4, RefMsgType)
//@     seg fixed(BusinessRejectRefId, 10, 32, R)
//@     seg encw(BE, 2, BusinessRejectReason)
//@     seg fixed(BusinessRejectText, 50, 32, R)

//@ layout CancelReject [proto szse_bin_v1.29, BE]
//@   path always
//@     seg encw(BE, 4, (PartitionNo % pow2(32)))
//@     seg encw(BE, 8, (ReportIndex % pow2(64)))
//@     seg fixed(ApplId, 3, 32, R)
//@     seg fixed(ReportingPbuid, 6, 32, R)
//@     seg fixed(SubmittingPbuid, 6, 32, R)
//@     seg fixed(SecurityId, 8, 32, R)
//@     seg fixed(SecurityIdsource, 4, 32, R)
//@     seg encw(BE, 2, OwnerType)
//@     seg fixed(ClearingFirm, 2, 32, R)
//@     seg encw(BE, 8, (TransactTime % pow2(64)))
//@     seg fixed(UserInfo, 8, 32, R)
//@     seg fixed(ClOrdId, 10, 32, R)
//@     seg fixed(OrigClOrdId, 10, 32, R)
//@     seg fixed(Side, 1, 32, R)
//@     seg fixed(OrdStatus, 1, 32, R)
//@     seg encw(BE, 2, CxlRejReason)
//@     seg fixed(RejectText, 16, 32, R)
//@     seg fixed(OrderId, 16, 32, R)

//@ layout ExecutionConfirm [proto szse_bin_v1.29, BE]
//@   dyn ApplExtend by ApplId in executionConfirmApplIdFactoryCache fills
//@   path ApplExtend == nil
//@     seg encw(BE, 4, (PartitionNo % pow2(32)))
//@     seg encw(BE, 8, (ReportIndex % pow2(64)))
//@     seg fixed(ApplId, 3, 32, R)
//@     seg fixed(ReportingPbuid, 6, 32, R)
//@     seg fixed(SubmittingPbuid, 6, 32, R)
//@     seg fixed(SecurityId, 8, 32, R)
//@     seg fixed(SecurityIdsource, 4, 32, R)
//@     seg encw(BE, 2, OwnerType)
//@     seg fixed(ClearingFirm, 2, 32, R)
//@     seg encw(BE, 8, (TransactTime % pow2(64)))
//@     seg fixed(UserInfo, 8, 32, R)
//@     seg fixed(OrderId, 16, 32, R)
//@     seg fixed(ClOrdId, 10, 32, R)
//@     seg fixed(QuoteMsgId, 10, 32, R)
//@     seg fixed(OrigClOrdId, 10, 32, R)
//@     seg fixed(ExecId, 16, 32, R)
//@     seg fixed(ExecType, 1, 32, R)
//@     seg fixed(OrdStatus, 1, 32, R)
//@     seg encw(BE, 2, OrdRejReason)
//@     seg encw(BE, 8, (LeavesQty % pow2(64)))
//@     seg encw(BE, 8, (CumQty % pow2(64)))
//@     seg fixed(Side, 1, 32, R)
//@     seg fixed(OrdType, 1, 32, R)
//@     seg encw(BE, 8, (OrderQty % pow2(64)))
//@     seg encw(BE, 8, (Price % pow2(64)))
//@     seg fixed(AccountId, 12, 32, R)
//@     seg fixed(BranchId, 4, 32, R)
//@     seg fixed(OrderRestrictions, 4, 32, R)
//@     seg Wd(tbl(executionConfirmApplIdFactoryCache, ApplId), zeromv(tbl(executionConfirmApplIdFactoryCache, ApplId)))
//@   path ApplExtend != nil
//@     seg encw(BE, 4, (PartitionNo % pow2(32)))
//@     seg encw(BE, 8, (ReportIndex % pow2(64)))
//@     seg fixed(ApplId, 3, 32, R)
//@     seg fixed(ReportingPbuid, 6, 32, R)
//@     seg fixed(SubmittingPbuid, 6, 32, R)
//@     seg fixed(SecurityId, 8, 32, R)
//@     seg fixed(SecurityIdsource, 4, 32, R)
//@     seg encw(BE, 2, OwnerType)
//@     seg fixed(ClearingFirm, 2, 32, R)
//@     seg encw(BE, 8, (TransactTime % pow2(64)))
//@     seg fixed(UserInfo, 8, 32, R)
//@     seg fixed(OrderId, 16, 32, R)
//@     seg fixed(ClOrdId, 10, 32, R)
//@     seg fixed(QuoteMsgId, 10, 32, R)
//@     seg fixed(OrigClOrdId, 10, 32, R)
//@     seg fixed(ExecId, 16, 32, R)
//@     seg fixed(ExecType, 1, 32, R)
//@     seg fixed(OrdStatus, 1, 32, R)
//@     seg encw(BE, 2, OrdRejReason)
//@     seg encw(BE, 8, (LeavesQty % pow2(64)))
//@     seg encw(BE, 8, (CumQty % pow2(64)))
//@     seg fixed(Side, 1, 32, R)
//@     seg fixed(OrdType, 1, 32, R)
//@     seg encw(BE, 8, (OrderQty % pow2(64)))
//@     seg encw(BE, 8, (Price % pow2(64)))
//@     seg fixed(AccountId, 12, 32, R)
//@     seg fixed(BranchId, 4, 32, R)
//@     seg fixed(OrderRestrictions, 4, 32, R)
//@     seg Wd(ApplExtend.tag, ApplExtend.mv)

//@ layout ExecutionReport [proto szse_bin_v1.29, BE]
//@   dyn ApplExtend by ApplId in executionReportApplIdFactoryCache fills
//@   path ApplExtend == nil
//@     seg encw(BE, 4, (PartitionNo % pow2(32)))
//@     seg encw(BE, 8, (ReportIndex % pow2(64)))
//@     seg fixed(ApplId, 3, 32, R)
//@     seg fixed(ReportingPbuid, 6, 32, R)
//@     seg fixed(SubmittingPbuid, 6, 32, R)
//@     seg fixed(SecurityId, 8, 32, R)
//@     seg fixed(SecurityIdsource, 4, 32, R)
//@     seg encw(BE, 2, OwnerType)
//@     seg fixed(ClearingFirm, 2, 32, R)
//@     seg encw(BE, 8, (TransactTime % pow2(64)))
//@     seg fixed(UserInfo, 8, 32, R)
//@     seg fixed(OrderId, 16, 32, R)
//@     seg fixed(ClOrdId, 10, 32, R)
//@     seg fixed(QuoteMsgId, 10, 32, R)
//@     seg fixed(ExecId, 16, 32, R)
//@     seg fixed(ExecType, 1, 32, R)
//@     seg fixed(OrdStatus, 1, 32, R)
//@     seg encw(BE, 8, (LastPx % pow2(64)))
//@     seg encw(BE, 8, (LastQty % pow2(64)))
//@     seg encw(BE, 8, (LeavesQty % pow2(64)))
//@     seg encw(BE, 8, (CumQty % pow2(64)))
//@     seg fixed(Side, 1, 32, R)
//@     seg fixed(AccountId, 12, 32, R)
//@     seg fixed(BranchId, 4, 32, R)
//@     seg Wd(tbl(executionReportApplIdFactoryCache, ApplId), zeromv(tbl(executionReportApplIdFactoryCache, ApplId)))
//@   path ApplExtend != nil
//@     seg encw(BE, 4, (PartitionNo % pow2(32)))
//@     seg encw(BE, 8, (ReportIndex % pow2(64)))
//@     seg fixed(ApplId, 3, 32, R)
//@     seg fixed(ReportingPbuid, 6, 32, R)
//@     seg fixed(SubmittingPbuid, 6, 32, R)
//@     seg fixed(SecurityId, 8, 32, R)
//@     seg fixed(SecurityIdsource, 4, 32, R)
//@     seg encw(BE, 2, OwnerType)
//@     seg fixed(ClearingFirm, 2, 32, R)
//@     seg encw(BE, 8, (TransactTime % pow2(64)))
//@     seg fixed(UserInfo, 8, 32, R)
//@     seg fixed(OrderId, 16, 32, R)
//@     seg fixed(ClOrdId, 10, 32, R)
//@     seg fixed(QuoteMsgId, 10, 32, R)
//@     seg fixed(ExecId, 16, 32, R)
//@     seg fixed(ExecType, 1, 32, R)
//@     seg fixed(OrdStatus, 1, 32, R)
//@     seg encw(BE, 8, (LastPx % pow2(64)))
//@     seg encw(BE, 8, (LastQty % pow2(64)))
//@     seg encw(BE, 8, (LeavesQty % pow2(64)))
//@     seg encw(BE, 8, (CumQty % pow2(64)))
//@     seg fixed(Side, 1, 32, R)
//@     seg fixed(AccountId, 12, 32, R)
//@     seg fixed(BranchId, 4, 32, R)
//@     seg Wd(ApplExtend.tag, ApplExtend.mv)

//@ layout Extend100101 [proto szse_bin_v1.29, BE]
//@   path always
//@     seg encw(BE, 8, (StopPx % pow2(64)))
//@     seg encw(BE, 8, (MinQty % pow2(64)))
//@     seg encw(BE, 2, MaxPriceLevels)
//@     seg fixed(TimeInForce, 1, 32, R)
//@     seg fixed(CashMargin, 1, 32, R)

//@ layout Extend100201 [proto szse_bin_v1.29, BE]
//@   path always
//@     seg encw(BE, 8, (StopPx % pow2(64)))
//@     seg encw(BE, 8, (MinQty % pow2(64)))
//@     seg encw(BE, 2, MaxPriceLevels)
//@     seg fixed(TimeInForce, 1, 32, R)

//@ layout Extend100301 [proto szse_bin_v1.29, BE]
//@   path always
//@     seg encw(BE, 8, (StopPx % pow2(64)))
//@     seg encw(BE, 8, (MinQty % pow2(64)))
//@     seg encw(BE, 2, MaxPriceLevels)
//@     seg fixed(TimeInForce, 1, 32, R)

//@ layout Extend100501 [proto szse_bin_v1.29, BE]
//@   path always
//@     seg fixed(ConfirmId, 8, 32, R)
//@     seg fixed(CashMargin, 1, 32, R)

//@ layout Extend100601 [proto szse_bin_v1.29, BE]
//@   path always
//@     seg fixed(CashMargin, 1, 32, R)

//@ layout Extend100701 [proto szse_bin_v1.29, BE]
//@   path always
//@     seg encw(BE, 2, ExpirationDays)
//@     seg encw(BE, 1, ExpirationType)
//@     seg fixed(ShareProperty, 2, 32, R)

//@ layout Extend101401 [proto szse_bin_v1.29, BE]
//@   path always
//@     seg encw(BE, 8, (StopPx % pow2(64)))
//@     seg encw(BE, 8, (MinQty % pow2(64)))
//@     seg encw(BE, 2, MaxPriceLevels)
//@     seg fixed(TimeInForce, 1, 32, R)
//@     seg fixed(PositionEffect, 1, 32, R)
//@     seg encw(BE, 1, CoveredOrUncovered)
//@     seg fixed(ContractAccountCode, 6, 32, R)
//@     seg fixed(SecondaryOrderId, 16, 32, R)

//@ layout Extend101501 [proto szse_bin_v1.29, BE]
//@   path always
//@     seg fixed(ShareProperty, 2, 32, R)

//@ layout Extend101601 [proto szse_bin_v1.29, BE]
//@   path always
//@     seg fixed(ContractAccountCode, 6, 32, R)

//@ layout Extend101701 [proto szse_bin_v1.29, BE]
//@   path always
//@     seg encw(BE, 8, (CashOrderQty % pow2(64)))

//@ layout Extend101801 [proto szse_bin_v1.29, BE]
//@   path always
//@     seg fixed(Tenderer, 6, 32, R)

//@ layout Extend102701 [proto szse_bin_v1.29, BE]
//@   path always
//@     seg fixed(DisposalPbu, 6, 32, R)
//@     seg fixed(DisposalAccountId, 12, 32, R)

//@ layout Extend102801 [proto szse_bin_v1.29, BE]
//@   path always
//@     seg fixed(LenderPbu, 6, 32, R)
//@     seg fixed(LenderAccountId, 12, 32, R)

//@ layout Extend102901 [proto szse_bin_v1.29, BE]
//@   path always
//@     seg fixed(DeductionPbu, 6, 32, R)
//@     seg fixed(DeductionAccountId, 12, 32, R)

//@ layout Extend103501 [proto szse_bin_v1.29, BE]
//@   path always
//@     seg fixed(ContractAccountCode, 6, 32, R)

//@ layout Extend103701 [proto szse_bin_v1.29, BE]
//@   path always
//@     seg fixed(CashMargin, 1, 32, R)

//@ layout Extend104101 [proto szse_bin_v1.29, BE]
//@   path always
//@     seg encw(BE, 8, (StopPx % pow2(64)))
//@     seg encw(BE, 8, (MinQty % pow2(64)))
//@     seg encw(BE, 2, MaxPriceLevels)
//@     seg fixed(TimeInForce, 1, 32, R)
//@     seg fixed(CashMargin, 1, 32, R)

//@ layout Extend104128 [proto szse_bin_v1.29, BE]
//@   path always
//@     seg fixed(MemberId, 6, 32, R)
//@     seg fixed(InvestorType, 2, 32, R)
//@     seg fixed(InvestorId, 10, 32, R)
//@     seg fixed(InvestorName, 120, 32, R)
//@     seg fixed(TraderCode, 8, 32, R)
//@     seg fixed(SecondaryOrderId, 16, 32, R)
//@     seg encw(BE, 2, BidTransType)
//@     seg encw(BE, 2, BidExecInstType)
//@     seg encw(BE, 8, (LowLimitPrice % pow2(64)))
//@     seg encw(BE, 8, (HighLimitPrice % pow2(64)))
//@     seg encw(BE, 8, (MinQty % pow2(64)))
//@     seg encw(BE, 4, TradeDate)
//@     seg encw(BE, 2, SettlType)
//@     seg encw(BE, 1, SettlPeriod)
//@     seg encw(BE, 1, PreTradeAnonymity)
//@     seg fixed(CashMargin, 1, 32, R)
//@     seg fixed(Memo, 160, 32, R)

//@ layout Extend104701 [proto szse_bin_v1.29, BE]
//@   path always
//@     seg fixed(SecondaryOrderId, 16, 32, R)

//@ layout Extend106301 [proto szse_bin_v1.29, BE]
//@   path always
//@     seg encw(BE, 8, (StopPx % pow2(64)))
//@     seg encw(BE, 8, (MinQty % pow2(64)))
//@     seg encw(BE, 2, MaxPriceLevels)
//@     seg fixed(TimeInForce, 1, 32, R)
//@     seg fixed(LotType, 1, 32, R)

//@ layout Extend200102 [proto szse_bin_v1.29, BE]
//@   path always
//@     seg encw(BE, 8, (StopPx % pow2(64)))
//@     seg encw(BE, 8, (MinQty % pow2(64)))
//@     seg encw(BE, 2, MaxPriceLevels)
//@     seg fixed(TimeInForce, 1, 32, R)
//@     seg fixed(CashMargin, 1, 32, R)

//@ layout Extend200115 [proto szse_bin_v1.29, BE]
//@   path always
//@     seg fixed(CashMargin, 1, 32, R)

//@ layout Extend200202 [proto szse_bin_v1.29, BE]
//@   path always
//@     seg encw(BE, 8, (StopPx % pow2(64)))
//@     seg encw(BE, 8, (MinQty % pow2(64)))
//@     seg encw(BE, 2, MaxPriceLevels)
//@     seg fixed(TimeInForce, 1, 32, R)

//@ layout Extend200215 [proto szse_bin_v1.29, BE]
//@   path always
//@     seg encw(BE, 4, MaturityDate)

//@ layout Extend200302 [proto szse_bin_v1.29, BE]
//@   path always
//@     seg encw(BE, 8, (StopPx % pow2(64)))
//@     seg encw(BE, 8, (MinQty % pow2(64)))
//@     seg encw(BE, 2, MaxPriceLevels)
//@     seg fixed(TimeInForce, 1, 32, R)

//@ layout Extend200315 [proto szse_bin_v1.29, BE]
//@   path always
//@     seg encw(BE, 4, MaturityDate)

//@ layout Extend200402 [proto szse_bin_v1.29, BE]
//@   path always
//@     seg encw(BE, 8, (StopPx % pow2(64)))
//@     seg encw(BE, 8, (MinQty % pow2(64)))
//@     seg encw(BE, 2, MaxPriceLevels)
//@     seg fixed(TimeInForce, 1, 32, R)
//@     seg fixed(PositionEffect, 1, 32, R)
//@     seg encw(BE, 1, CoveredOrUncovered)
//@     seg fixed(ContractAccountCode, 6, 32, R)
//@     seg fixed(SecondaryOrderId, 16, 32, R)

//@ layout Extend200415 [proto szse_bin_v1.29, BE]
//@   path always
//@     seg fixed(PositionEffect, 1, 32, R)
//@     seg encw(BE, 1, CoveredOrUncovered)
//@     seg fixed(ContractAccountCode, 6, 32, R)
//@     seg fixed(SecondaryOrderId, 16, 32, R)

//@ layout Extend200502 [proto szse_bin_v1.29, BE]
//@   path always
//@     seg fixed(ConfirmId, 8, 32, R)
//@     seg fixed(CashMargin, 1, 32, R)

//@ layout Extend200515 [proto szse_bin_v1.29, BE]
//@   path always
//@     seg fixed(ConfirmId, 8, 32, R)
//@     seg fixed(CashMargin, 1, 32, R)

//@ layout Extend200602 [proto szse_bin_v1.29, BE]
//@   path always
//@     seg fixed(CashMargin, 1, 32, R)

//@ layout Extend200615 [proto szse_bin_v1.29, BE]
//@   path always
//@     seg fixed(CashMargin, 1, 32, R)

//@ layout Extend200702 [proto szse_bin_v1.29, BE]
//@   path always
//@     seg encw(BE, 2, ExpirationDays)
//@     seg encw(BE, 1, ExpirationType)
//@     seg fixed(ShareProperty, 2, 32, R)

//@ layout Extend200715 [proto szse_bin_v1.29, BE]
//@   path always
//@     seg encw(BE, 2, ExpirationDays)
//@     seg encw(BE, 1, ExpirationType)
//@     seg encw(BE, 4, MaturityDate)
//@     seg fixed(ShareProperty, 2, 32, R)

//@ layout Extend201202 [proto szse_bin_v1.29, BE]
//@   path always
//@     seg fixed(InsufficientSecurityId, 8, 32, R)
//@     seg encw(BE, 4, NoSecurity)
//@     seg fixed(UnderlyingSecurityId, 8, 32, R)
//@     seg fixed(UnderlyingSecurityIdsource, 4, 32, R)
//@     seg encw(BE, 8, (DeliveryQty % pow2(64)))
//@     seg encw(BE, 8, (SubstCash % pow2(64)))

//@ layout Extend201502 [proto szse_bin_v1.29, BE]
//@   path always
//@     seg fixed(ShareProperty, 2, 32, R)

//@ layout Extend201602 [proto szse_bin_v1.29, BE]
//@   path always
//@     seg fixed(ContractAccountCode, 6, 32, R)

//@ layout Extend201702 [proto szse_bin_v1.29, BE]
//@   path always
//@     seg encw(BE, 8, (CashOrderQty % pow2(64)))

//@ layout Extend201802 [proto szse_bin_v1.29, BE]
//@   path always
//@     seg fixed(Tenderer, 6, 32, R)

//@ layout Extend202702 [proto szse_bin_v1.29, BE]
//@   path always
//@     seg fixed(DisposalPbu, 6, 32, R)
//@     seg fixed(DisposalAccountId, 12, 32, R)

//@ layout Extend202802 [proto szse_bin_v1.29, BE]
//@   path always
//@     seg fixed(LenderPbu, 6, 32, R)
//@     seg fixed(LenderAccountId, 12, 32, R)

//@ layout Extend202902 [proto szse_bin_v1.29, BE]
//@   path always
//@     seg fixed(DeductionPbu, 6, 32, R)
//@     seg fixed(DeductionAccountId, 12, 32, R)

//@ layout Extend203102 [proto szse_bin_v1.29, BE]
//@   path always
//@     seg fixed(InsufficientSecurityId, 8, 32, R)
//@     seg encw(BE, 4, NoSecurity)
//@     seg fixed(UnderlyingSecurityId, 8, 32, R)
//@     seg fixed(UnderlyingSecurityIdsource, 4, 32, R)
//@     seg encw(BE, 8, (DeliveryQty % pow2(64)))

//@ layout Extend203502 [proto szse_bin_v1.29, BE]
//@   path always
//@     seg fixed(ContractAccountCode, 6, 32, R)

//@ layout Extend203702 [proto szse_bin_v1.29, BE]
//@   path always
//@     seg fixed(CashMargin, 1, 32, R)

//@ layout Extend203715 [proto szse_bin_v1.29, BE]
//@   path always
//@     seg fixed(CashMargin, 1, 32, R)

//@ layout Extend204102 [proto szse_bin_v1.29, BE]
//@   path always
//@     seg encw(BE, 8, (StopPx % pow2(64)))
//@     seg encw(BE, 8, (MinQty % pow2(64)))
//@     seg encw(BE, 2, MaxPriceLevels)
//@     seg fixed(TimeInForce, 1, 32, R)
//@     seg fixed(CashMargin, 1, 32, R)

//@ layout Extend204115 [proto szse_bin_v1.29, BE]
//@   path always
//@     seg fixed(CashMargin, 1, 32, R)
//@     seg encw(BE, 2, SettlType)
//@     seg encw(BE, 1, SettlPeriod)
//@     seg fixed(CounterpartyMemberId, 6, 32, R)
//@     seg fixed(CounterpartyInvestorType, 2, 32, R)
//@     seg fixed(CounterpartyInvestorId, 10, 32, R)
//@     seg fixed(CounterpartyInvestorName, 120, 32, R)
//@     seg fixed(CounterpartyTraderCode, 8, 32, R)

//@ layout Extend204129 [proto szse_bin_v1.29, BE]
//@   path always
//@     seg fixed(MemberId, 6, 32, R)
//@     seg fixed(InvestorType, 2, 32, R)
//@     seg fixed(InvestorId, 10, 32, R)
//@     seg fixed(InvestorName, 120, 32, R)
//@     seg fixed(TraderCode, 8, 32, R)
//@     seg fixed(SecondaryOrderId, 16, 32, R)
//@     seg encw(BE, 2, BidTransType)
//@     seg encw(BE, 2, BidExecInstType)
//@     seg encw(BE, 8, (LowLimitPrice % pow2(64)))
//@     seg encw(BE, 8, (HighLimitPrice % pow2(64)))
//@     seg encw(BE, 8, (MinQty % pow2(64)))
//@     seg encw(BE, 4, TradeDate)
//@     seg encw(BE, 2, SettlType)
//@     seg encw(BE, 1, SettlPeriod)
//@     seg encw(BE, 1, PreTradeAnonymity)
//@     seg fixed(CashMargin, 1, 32, R)
//@     seg fixed(Memo, 160, 32, R)

//@ layout Extend204130 [proto szse_bin_v1.29, BE]
//@   path always
//@     seg fixed(MemberId, 6, 32, R)
//@     seg fixed(InvestorType, 2, 32, R)
//@     seg fixed(InvestorId, 10, 32, R)
//@     seg fixed(InvestorName, 120, 32, R)
//@     seg fixed(TraderCode, 8, 32, R)
//@     seg fixed(CounterpartyMemberId, 6, 32, R)
//@     seg fixed(CounterpartyInvestorType, 2, 32, R)
//@     seg fixed(CounterpartyInvestorId, 10, 32, R)
//@     seg fixed(CounterpartyInvestorName, 120, 32, R)
//@     seg fixed(CounterpartyTraderCode, 8, 32, R)
//@     seg fixed(SecondaryOrderId, 16, 32, R)
//@     seg encw(BE, 2, BidTransType)
//@     seg encw(BE, 2, BidExecInstType)
//@     seg encw(BE, 2, SettlType)
//@     seg encw(BE, 1, SettlPeriod)
//@     seg fixed(CashMargin, 1, 32, R)
//@     seg fixed(Memo, 160, 32, R)

//@ layout Extend204702 [proto szse_bin_v1.29, BE]
//@   path always
//@     seg fixed(SecondaryOrderId, 16, 32, R)

//@ layout Extend204715 [proto szse_bin_v1.29, BE]
//@   path always
//@     seg encw(BE, 2, ExpirationDays)
//@     seg encw(BE, 1, ExpirationType)
//@     seg encw(BE, 4, MaturityDate)
//@     seg fixed(ShareProperty, 2, 32, R)

//@ layout Extend206302 [proto szse_bin_v1.29, BE]
//@   path always
//@     seg fixed(RejectText, 16, 32, R)
//@     seg encw(BE, 8, (StopPx % pow2(64)))
//@     seg encw(BE, 8, (MinQty % pow2(64)))
//@     seg encw(BE, 2, MaxPriceLevels)
//@     seg fixed(TimeInForce, 1, 32, R)
//@     seg fixed(LotType, 1, 32, R)
//@     seg encw(BE, 4, ImcrejectTextLen)
//@     seg encw(BE, 4, len(ImcrejectText))
//@     seg ImcrejectText

//@ layout Extend206315 [proto szse_bin_v1.29, BE]
//@   path always
//@     seg fixed(CashMargin, 1, 32, R)

//@ layout Heartbeat [proto szse_bin_v1.29, BE]
//@   path always

//@ layout Logon [proto szse_bin_v1.29, BE]
//@   path always
//@     seg fixed(SenderCompId, 20, 32, R)
//@     seg fixed(TargetCompId, 20, 32, R)
//@     seg encw(BE, 4, (HeartBtint % pow2(32)))
//@     seg fixed(Password, 16, 32, R)
//@     seg fixed(DefaultApplVerId, 32, 32, R)

//@ layout Logout [proto szse_bin_v1.29, BE]
//@   path always
//@     seg encw(BE, 4, (SessionStatus % pow2(32)))
//@     seg fixed(Text, 200, 32, R)

//@ layout NewOrder [proto szse_bin_v1.29, BE]
//@   dyn ApplExtend by ApplId in newOrderApplIdFactoryCache fills
//@   path ApplExtend == nil
//@     seg fixed(ApplId, 3, 32, R)
//@     seg fixed(SubmittingPbuid, 6, 32, R)
//@     seg fixed(SecurityId, 8, 32, R)
//@     seg fixed(SecurityIdsource, 4, 32, R)
//@     seg encw(BE, 2, OwnerType)
//@     seg fixed(ClearingFirm, 2, 32, R)
//@     seg encw(BE, 8, (TransactTime % pow2(64)))
//@     seg fixed(UserInfo, 8, 32, R)
//@     seg fixed(ClOrdId, 10, 32, R)
//@     seg fixed(AccountId, 12, 32, R)
//@     seg fixed(BranchId, 4, 32, R)
//@     seg fixed(OrderRestrictions, 4, 32, R)
//@     seg fixed(Side, 1, 32, R)
//@     seg fixed(OrdType, 1, 32, R)
//@     seg encw(BE, 8, (OrderQty % pow2(64)))
//@     seg encw(BE, 8, (Price % pow2(64)))
//@     seg Wd(tbl(newOrderApplIdFactoryCache, ApplId), zeromv(tbl(newOrderApplIdFactoryCache, ApplId)))
//@   path ApplExtend != nil
//@     seg fixed(ApplId, 3, 32, R)
//@     seg fixed(SubmittingPbuid, 6, 32, R)
//@     seg fixed(SecurityId, 8, 32, R)
//@     seg fixed(SecurityIdsource, 4, 32, R)
//@     seg encw(BE, 2, OwnerType)
//@     seg fixed(ClearingFirm, 2, 32, R)
//@     seg encw(BE, 8, (TransactTime % pow2(64)))
//@     seg fixed(UserInfo, 8, 32, R)
//@     seg fixed(ClOrdId, 10, 32, R)
//@     seg fixed(AccountId, 12, 32, R)
//@     seg fixed(BranchId, 4, 32, R)
//@     seg fixed(OrderRestrictions, 4, 32, R)
//@     seg fixed(Side, 1, 32, R)
//@     seg fixed(OrdType, 1, 32, R)
//@     seg encw(BE, 8, (OrderQty % pow2(64)))
//@     seg encw(BE, 8, (Price % pow2(64)))
//@     seg Wd(ApplExtend.tag, ApplExtend.mv)

//@ layout OrderCancelRequest [proto szse_bin_v1.29, BE]
//@   path always
//@     seg fixed(ApplId, 3, 32, R)
//@     seg fixed(SubmittingPbuid, 6, 32, R)
//@     seg fixed(SecurityId, 8, 32, R)
//@     seg fixed(SecurityIdsource, 4, 32, R)
//@     seg encw(BE, 2, OwnerType)
//@     seg fixed(ClearingFirm, 2, 32, R)
//@     seg encw(BE, 8, (TransactTime % pow2(64)))
//@     seg fixed(UserInfo, 8, 32, R)
//@     seg fixed(ClOrdId, 10, 32, R)
//@     seg fixed(OrigClOrdId, 10, 32, R)
//@     seg fixed(Side, 1, 32, R)
//@     seg fixed(OrderId, 16, 32, R)
//@     seg encw(BE, 8, (OrderQty % pow2(64)))

//@ layout PartitionReport [proto szse_bin_v1.29, BE]
//@   path always
//@     seg encw(BE, 4, (PartitionNo % pow2(32)))
//@     seg encw(BE, 8, (ReportIndex % pow2(64)))

//@ layout PlatformInfo [proto szse_bin_v1.29, BE]
//@   path always
//@     seg encw(BE, 2, PlatformId)
//@     seg encw(BE, 4, len(PlatformPartition))
//@     seg flat(k_obj(tag(PlatformPartition)), PlatformPartition, 0, len(PlatformPartition))

//@ layout PlatformPartition [proto szse_bin_v1.29, BE]
//@   path always
//@     seg encw(BE, 4, (PartitionNo % pow2(32)))

//@ layout PlatformStateInfo [proto szse_bin_v1.29, BE]
//@   path always
//@     seg encw(BE, 2, PlatformId)
//@     seg encw(BE, 2, PlatformState)

//@ layout ReportFinished [proto szse_bin_v1.29, BE]
//@   path always
//@     seg encw(BE, 4, (PartitionNo % pow2(32)))
//@     seg encw(BE, 8, (ReportIndex % pow2(64)))
//@     seg encw(BE, 2, PlatformId)

//@ layout ReportSynchronization [proto szse_bin_v1.29, BE]
//@   path always
//@     seg encw(BE, 4, len(PartitionReport))
//@     seg flat(k_obj(tag(PartitionReport)), PartitionReport, 0, len(PartitionReport))

//@ layout SzseBinary [proto szse_bin_v1.29, BE, frame len=BodyLength body=Body cksum=Checksum alg=bsum256]
//@   dyn Body by MsgType in szseBinaryMsgTypeFactoryCache
//@   path Body != nil
//@     seg encw(BE, 4, MsgType)
//@     seg encw(BE, 4, (len(Wd(Body.tag, Body.mv)) % pow2(32)))
//@     seg Wd(Body.tag, Body.mv)
//@     seg encw(BE, 4, ((bsum((encw(BE, 4, MsgType) ++ encw(BE, 4, (len(Wd(Body.tag, Body.mv)) % pow2(32))) ++ Wd(Body.tag, Body.mv)), (len(Wd(Body.tag, Body.mv)) + 8)) % pow2(8)) % pow2(32)))
//@     post BodyLength == (len(Wd(Body.tag, Body.mv)) % pow2(32))
//@     post Checksum == (bsum((encw(BE, 4, MsgType) ++ encw(BE, 4, (len(Wd(Body.tag, Body.mv)) % pow2(32))) ++ Wd(Body.tag, Body.mv)), (len(Wd(Body.tag, Body.mv)) + 8)) % pow2(8))
//@   path Body == nil
//@     seg encw(BE, 4, MsgType)
//@     seg encw(BE, 4, 0)
//@     seg encw(BE, 4, ((bsum((encw(BE, 4, MsgType) ++ encw(BE, 4, 0)), 8) % pow2(8)) % pow2(32)))
//@     post BodyLength == 0
//@     post Checksum == (bsum((encw(BE, 4, MsgType) ++ encw(BE, 4, 0)), 8) % pow2(8))

//@ layout TradingSessionStatus [proto szse_bin_v1.29, BE]
//@   path always
//@     seg fixed(MarketId, 8, 32, R)
//@     seg fixed(MarketSegmentId, 8, 32, R)
//@     seg fixed(TradingSessionId, 4, 32, R)
//@     seg fixed(TradingSessionSubId, 4, 32, R)
//@     seg encw(BE, 2, TradSesStatus)
//@     seg encw(BE, 8, (TradSesStartTime % pow2(64)))
//@     seg encw(BE, 8, (TradSesEndTime % pow2(64)))
