//go:build verif

// Pinned wire layouts and discriminator tables of package bjse_trade_bin for the gocv verifier (/verif).
// Comments only. Each layout lists, per Encode path, the byte segments written (as contract
// expressions over the field names) and the fields the encoder writes back; it was produced by
// `gocv bootstrap` from the pinned tree and is from then on the specification the code is checked
// against (DESIGN.md 6.2). A byte-identical mirror is kept under /verif/contracts/mirror.

package bjse_trade_bin

//@ table allegeQuoteApplIdFactoryCache : string
//@   "070"->AllegeQuoteExtend070

//@ table bjseBinaryMsgTypeFactoryCache : int
//@   1->Logon
//@   2->Logout
//@   3->Heartbeat
//@   101000->NewOrder
//@   102000->OrderCancelRequest
//@   201000->CancelReject
//@   202010->ExecutionConfirm
//@   203010->ExecutionReport
//@   5->ReportSynchronization
//@   6->PlatformStateInfo
//@   7->ReportFinished

//@ table executionConfirmApplIdFactoryCache : string
//@   "010"->ConfirmExtend010
//@   "040"->ConfirmExtend040
//@   "041"->ConfirmExtend041
//@   "042"->ConfirmExtend042
//@   "043"->ConfirmExtend043
//@   "044"->ConfirmExtend044
//@   "045"->ConfirmExtend045
//@   "050"->ConfirmExtend050

//@ table executionReportApplIdFactoryCache : string
//@   "010"->ReportExtend010
//@   "040"->ReportExtend040
//@   "050"->ReportExtend050

//@ table newOrderApplIdFactoryCache : string
//@   "010"->ExtendNewOrder010
//@   "040"->ExtendNewOrder040
//@   "041"->ExtendNewOrder041
//@   "042"->ExtendNewOrder042
//@   "043"->ExtendNewOrder043
//@   "044"->ExtendNewOrder044
//@   "045"->ExtendNewOrder045
//@   "050"->ExtendNewOrder050

//@ table quoteApplIdFactoryCache : string
//@   "070"->QuoteExtend070
//@   "071"->QuoteExtend071

//@ table quoteResponseApplIdFactoryCache : string
//@   "070"->QuoteResponseExtend070

//@ table quoteStatusReportApplIdFactoryCache : string
//@   "070"->QuoteStatusReportExtend070

//@ table tradeCaptureConfirmApplIdFactoryCache : string
//@   "031"->TradeCaptureConfirmExtend031
//@   "051"->TradeCaptureConfirmExtend051
//@   "060"->TradeCaptureConfirmExtend060
//@   "061"->TradeCaptureConfirmExtend061
//@   "062"->TradeCaptureConfirmExtend062

//@ table tradeCaptureReportAckApplIdFactoryCache : string
//@   "031"->TradeCaptureReportAckExtend031
//@   "051"->TradeCaptureReportAckExtend051
//@   "060"->TradeCaptureReportAckExtend060
//@   "061"->TradeCaptureReportAckExtend061
//@   "062"->TradeCaptureReportAckExtend062

//@ table tradeCaptureReportApplIdFactoryCache : string
//@   "031"->TradeCaptureReportExtend031
//@   "051"->TradeCaptureReportExtend051
//@   "060"->TradeCaptureReportExtend060
//@   "061"->TradeCaptureReportExtend061
//@   "062"->TradeCaptureReportExtend062

//@ layout AllegeQuote [proto bjse_trade_bin_v0.9, LE]
//@   dyn ApplExtend by ApplId in allegeQuoteApplIdFactoryCache fills
//@   path ApplExtend == nil
//@     seg encw(LE, 4, (PartitionNo % pow2(32)))
//@     seg encw(LE, 8, (ReportIndex % pow2(64)))
//@     seg fixed(ApplId, 3, 32, R)
//@     seg fixed(ReportingPbuid, 6, 32, R)
//@     seg fixed(SubmittingPbuid, 6, 32, R)
//@     seg fixed(SecurityId, 8, 32, R)
//@     seg fixed(SecurityIdsource, 4, 32, R)
//@     seg encw(LE, 2, OwnerType)
//@     seg fixed(ClearingFirm, 2, 32, R)
//@     seg encw(LE, 8, (TransactTime % pow2(64)))
//@     seg fixed(UserInfo, 32, 32, R)
//@     seg fixed(OrderId, 16, 32, R)
//@     seg fixed(ExecId, 16, 32, R)
//@     seg fixed(ClOrdId, 10, 32, R)
//@     seg fixed(AccountId, 10, 32, R)
//@     seg fixed(QuoteReqId, 10, 32, R)
//@     seg fixed(QuoteId, 10, 32, R)
//@     seg fixed(QuoteRespId, 10, 32, R)
//@     seg encw(LE, 1, QuoteType)
//@     seg encw(LE, 8, (BidPx % pow2(64)))
//@     seg encw(LE, 8, (OfferPx % pow2(64)))
//@     seg encw(LE, 8, (BidSize % pow2(64)))
//@     seg encw(LE, 8, (OfferSize % pow2(64)))
//@     seg encw(LE, 1, PrivateQuote)
//@     seg encw(LE, 8, (ValidUntilTime % pow2(64)))
//@     seg encw(LE, 1, PriceType)
//@     seg fixed(Memo, 120, 32, R)
//@     seg Wd(tbl(allegeQuoteApplIdFactoryCache, ApplId), zeromv(tbl(allegeQuoteApplIdFactoryCache, ApplId)))
//@   path ApplExtend != nil
//@     seg encw(LE, 4, (PartitionNo % pow2(32)))
//@     seg encw(LE, 8, (ReportIndex % pow2(64)))
//@     seg fixed(ApplId, 3, 32, R)
//@     seg fixed(ReportingPbuid, 6, 32, R)
//@     seg fixed(SubmittingPbuid, 6, 32, R)
//@     seg fixed(SecurityId, 8, 32, R)
//@     seg fixed(SecurityIdsource, 4, 32, R)
//@     seg encw(LE, 2, OwnerType)
//@     seg fixed(ClearingFirm, 2, 32, R)
//@     seg encw(LE, 8, (TransactTime % pow2(64)))
//@     seg fixed(UserInfo, 32, 32, R)
//@     seg fixed(OrderId, 16, 32, R)
//@     seg fixed(ExecId, 16, 32, R)
//@     seg fixed(ClOrdId, 10, 32, R)
//@     seg fixed(AccountId, 10, 32, R)
//@     seg fixed(QuoteReqId, 10, 32, R)
//@     seg fixed(QuoteId, 10, 32, R)
//@     seg fixed(QuoteRespId, 10, 32, R)
//@     seg encw(LE, 1, QuoteType)
//@     seg encw(LE, 8, (BidPx % pow2(64)))
//@     seg encw(LE, 8, (OfferPx % pow2(64)))
//@     seg encw(LE, 8, (BidSize % pow2(64)))
//@     seg encw(LE, 8, (OfferSize % pow2(64)))
//@     seg encw(LE, 1, PrivateQuote)
//@     seg encw(LE, 8, (ValidUntilTime % pow2(64)))
//@     seg encw(LE, 1, PriceType)
//@     seg fixed(Memo, 120, 32, R)
//@     seg Wd(ApplExtend.tag, ApplExtend.mv)

//@ layout AllegeQuoteExtend070 [proto bjse_trade_bin_v0.9, LE]
//@   path always
//@     seg fixed(CashMargin, 1, 32, R)
//@     seg fixed(CounterPartyPbuid, 6, 32, R)

//@ layout AllegeQuoteResponse [proto bjse_trade_bin_v0.9, LE]
//@   path always
//@     seg encw(LE, 4, (PartitionNo % pow2(32)))
//@     seg encw(LE, 8, (ReportIndex % pow2(64)))
//@     seg fixed(ApplId, 3, 32, R)
//@     seg fixed(ReportingPbuid, 6, 32, R)
//@     seg fixed(SubmittingPbuid, 6, 32, R)
//@     seg fixed(SecurityId, 8, 32, R)
//@     seg fixed(SecurityIdsource, 4, 32, R)
//@     seg encw(LE, 2, OwnerType)
//@     seg fixed(ClearingFirm, 2, 32, R)
//@     seg encw(LE, 8, (TransactTime % pow2(64)))
//@     seg fixed(UserInfo, 32, 32, R)
//@     seg fixed(OrderId, 16, 32, R)
//@     seg fixed(ExecId, 16, 32, R)
//@     seg fixed(ClOrdId, 10, 32, R)
//@     seg fixed(AccountId, 10, 32, R)
//@     seg fixed(QuoteId, 10, 32, R)
//@     seg fixed(QuoteRespId, 10, 32, R)
//@     seg encw(LE, 1, QuoteRespType)
//@     seg encw(LE, 1, PrivateQuote)
//@     seg encw(LE, 8, (OrderQty % pow2(64)))
//@     seg encw(LE, 8, (Price % pow2(64)))
//@     seg encw(LE, 8, (ValidUntilTime % pow2(64)))
//@     seg encw(LE, 1, QuoteType)
//@     seg encw(LE, 1, PriceType)

//@ layout BjseBinary [proto bjse_trade_bin_v0.9, LE]
//@   dyn Body by MsgType in bjseBinaryMsgTypeFactoryCache fills
//@   path Body == nil
//@     seg encw(LE, 4, MsgType)
//@     seg encw(LE, 4, BodyLength)
//@     seg Wd(tbl(bjseBinaryMsgTypeFactoryCache, MsgType), zeromv(tbl(bjseBinaryMsgTypeFactoryCache, MsgType)))
//@     seg encw(LE, 4, Checksum)
//@   path Body != nil
//@     seg encw(LE, 4, MsgType)
//@     seg encw(LE, 4, BodyLength)
//@     seg Wd(Body.tag, Body.mv)
//@     seg encw(LE, 4, Checksum)

//@ layout BusinessReject [proto bjse_trade_bin_v0.9, LE]
//@   path always
//@     seg fixed(ApplId, 3, 32, R)
//@     seg encw(LE, 8, (TransactTime % pow2(64)))
//@     seg fixed(SubmittingPbuid, 6, 32, R)
//@     seg fixed(SecurityId, 8, 32, R)
//@     seg fixed(SecurityIdsource, 4, 32, R)
//@     seg encw(LE, 8, (RefSeqNum % pow2(64)))
//@     seg encw(LE, 4, RefMsgType)
//@     seg fixed(BusinessRejectRefId, 10, 32, R)
//@     seg encw(LE, 2, BusinessRejectReason)
//@     seg fixed(BusinessRejectText, 50, 32, R)

//@ layout CancelReject [proto bjse_trade_bin_v0.9, LE]
//@   path always
//@     seg encw(LE, 4, (PartitionNo % pow2(32)))
//@     seg encw(LE, 8, (ReportIndex % pow2(64)))
//@     seg fixed(ApplId, 3, 32, R)
//@     seg fixed(ReportingPbuid, 6, 32, R)
//@     seg fixed(SubmittingPbuid, 6, 32, R)
//@     seg fixed(SecurityId, 8, 32, R)
//@     seg fixed(SecurityIdsource, 4, 32, R)
//@     seg encw(LE, 2, OwnerType)
//@     seg fixed(ClearingFirm, 2, 32, R)
//@     seg encw(LE, 8, (TransactTime % pow2(64)))
//@     seg fixed(UserInfo, 32, 32, R)
//@     seg fixed(ClOrdId, 10, 32, R)
//@     seg fixed(OrigClOrdId, 10, 32, R)
//@     seg fixed(AccountId, 10, 32, R)
//@     seg fixed(BranchId, 2, 32, R)
//@     seg fixed(OrdStatus, 1, 32, R)
//@     seg encw(LE, 2, CxlRejReason)
//@     seg fixed(RejectText, 16, 32, R)
//@     seg fixed(OrderId, 16, 32, R)

//@ layout ConfirmExtend010 [proto bjse_trade_bin_v0.9, LE]
//@   path always
//@     seg encw(LE, 8, (StopPx % pow2(64)))
//@     seg encw(LE, 8, (MinQty % pow2(64)))
//@     seg encw(LE, 2, MaxPriceLevels)
//@     seg fixed(TimeInForce, 1, 32, R)
//@     seg fixed(CashMargin, 1, 32, R)

//@ layout ConfirmExtend040 [proto bjse_trade_bin_v0.9, LE]
//@   path always
//@     seg encw(LE, 8, (StopPx % pow2(64)))
//@     seg encw(LE, 8, (MinQty % pow2(64)))
//@     seg encw(LE, 2, MaxPriceLevels)
//@     seg fixed(TimeInForce, 1, 32, R)
//@     seg fixed(CashMargin, 1, 32, R)

//@ layout ConfirmExtend041 [proto bjse_trade_bin_v0.9, LE]
//@   path always

//@ layout ConfirmExtend042 [proto bjse_trade_bin_v0.9, LE]
//@   path always

//@ layout ConfirmExtend043 [proto bjse_trade_bin_v0.9, LE]
//@   path always

//@ layout ConfirmExtend044 [proto bjse_trade_bin_v0.9, LE]
//@   path always

//@ layout ConfirmExtend045 [proto bjse_trade_bin_v0.9, LE]
//@   path always

//@ layout ConfirmExtend050 [proto bjse_trade_bin_v0.9, LE]
//@   path always
//@     seg encw(LE, 2, ExpirationDays)
//@     seg encw(LE, 1, ExpirationType)
//@     seg fixed(ShareProperty, 2, 32, R)

//@ layout ExecutionConfirm [proto bjse_trade_bin_v0.9, LE]
//@   dyn ApplExtend by ApplId in executionConfirmApplIdFactoryCache fills
//@   path ApplExtend == nil
//@     seg encw(LE, 4, (PartitionNo % pow2(32)))
//@     seg encw(LE, 8, (ReportIndex % pow2(64)))
//@     seg fixed(ApplId, 3, 32, R)
//@     seg fixed(ReportingPbuid, 6, 32, R)
//@     seg fixed(SubmittingPbuid, 6, 32, R)
//@     seg fixed(SecurityId, 8, 32, R)
//@     seg fixed(SecurityIdsource, 4, 32, R)
//@     seg encw(LE, 2, OwnerType)
//@     seg fixed(ClearingFirm, 2, 32, R)
//@     seg encw(LE, 8, (TransactTime % pow2(64)))
//@     seg fixed(UserInfo, 32, 32, R)
//@     seg fixed(OrderId, 16, 32, R)
//@     seg fixed(ClOrdId, 10, 32, R)
//@     seg fixed(OrigClOrdId, 10, 32, R)
//@     seg fixed(ExecId, 16, 32, R)
//@     seg fixed(ExecType, 1, 32, R)
//@     seg fixed(OrdStatus, 1, 32, R)
//@     seg encw(LE, 2, OrdRejReason)
//@     seg encw(LE, 8, (LeavesQty % pow2(64)))
//@     seg encw(LE, 8, (CumQty % pow2(64)))
//@     seg fixed(Side, 1, 32, R)
//@     seg fixed(OrdType, 1, 32, R)
//@     seg encw(LE, 8, (OrderQty % pow2(64)))
//@     seg encw(LE, 8, (Price % pow2(64)))
//@     seg fixed(AccountId, 10, 32, R)
//@     seg fixed(BranchId, 2, 32, R)
//@     seg fixed(OrderRestrictions, 4, 32, R)
//@     seg Wd(tbl(executionConfirmApplIdFactoryCache, ApplId), zeromv(tbl(executionConfirmApplIdFactoryCache, ApplId)))
//@   path ApplExtend != nil
//@     seg encw(LE, 4, (PartitionNo % pow2(32)))
//@     seg encw(LE, 8, (ReportIndex % pow2(64)))
//@     seg fixed(ApplId, 3, 32, R)
//@     seg fixed(ReportingPbuid, 6, 32, R)
//@     seg fixed(SubmittingPbuid, 6, 32, R)
//@     seg fixed(SecurityId, 8, 32, R)
//@     seg fixed(SecurityIdsource, 4, 32, R)
//@     seg encw(LE, 2, OwnerType)
//@     seg fixed(ClearingFirm, 2, 32, R)
//@     seg encw(LE, 8, (TransactTime % pow2(64)))
//@     seg fixed(UserInfo, 32, 32, R)
//@     seg fixed(OrderId, 16, 32, R)
//@     seg fixed(ClOrdId, 10, 32, R)
//@     seg fixed(OrigClOrdId, 10, 32, R)
//@     seg fixed(ExecId, 16, 32, R)
//@     seg fixed(ExecType, 1, 32, R)
//@     seg fixed(OrdStatus, 1, 32, R)
//@     seg encw(LE, 2, OrdRejReason)
//@     seg encw(LE, 8, (LeavesQty % pow2(64)))
//@     seg encw(LE, 8, (CumQty % pow2(64)))
//@     seg fixed(Side, 1, 32, R)
//@     seg fixed(OrdType, 1, 32, R)
//@     seg encw(LE, 8, (OrderQty % pow2(64)))
//@     seg encw(LE, 8, (Price % pow2(64)))
//@     seg fixed(AccountId, 10, 32, R)
//@     seg fixed(BranchId, 2, 32, R)
//@     seg fixed(OrderRestrictions, 4, 32, R)
//@     seg Wd(ApplExtend.tag, ApplExtend.mv)

//@ layout ExecutionReport [proto bjse_trade_bin_v0.9, LE]
//@   dyn ApplExtend by ApplId in executionReportApplIdFactoryCache fills
//@   path ApplExtend == nil
//@     seg encw(LE, 4, (PartitionNo % pow2(32)))
//@     seg encw(LE, 8, (ReportIndex % pow2(64)))
//@     seg fixed(ApplId, 3, 32, R)
//@     seg fixed(ReportingPbuid, 6, 32, R)
//@     seg fixed(SubmittingPbuid, 6, 32, R)
//@     seg fixed(SecurityId, 8, 32, R)
//@     seg fixed(SecurityIdsource, 4, 32, R)
//@     seg encw(LE, 2, OwnerType)
//@     seg fixed(ClearingFirm, 2, 32, R)
//@     seg encw(LE, 8, (TransactTime % pow2(64)))
//@     seg fixed(UserInfo, 32, 32, R)
//@     seg fixed(OrderId, 16, 32, R)
//@     seg fixed(ClOrdId, 10, 32, R)
//@     seg fixed(ExecId, 16, 32, R)
//@     seg fixed(ExecType, 1, 32, R)
//@     seg fixed(OrdStatus, 1, 32, R)
//@     seg encw(LE, 8, (LastPx % pow2(64)))
//@     seg encw(LE, 8, (LastQty % pow2(64)))
//@     seg encw(LE, 8, (LeavesQty % pow2(64)))
//@     seg encw(LE, 8, (CumQty % pow2(64)))
//@     seg fixed(Side, 1, 32, R)
//@     seg fixed(AccountId, 10, 32, R)
//@     seg fixed(BranchId, 2, 32, R)
//@     seg Wd(tbl(executionReportApplIdFactoryCache, ApplId), zeromv(tbl(executionReportApplIdFactoryCache, ApplId)))
//@   path ApplExtend != nil
//@     seg encw(LE, 4, (PartitionNo % pow2(32)))
//@     seg encw(LE, 8, (ReportIndex % pow2(64)))
//@     seg fixed(ApplId, 3, 32, R)
//@     seg fixed(ReportingPbuid, 6, 32, R)
//@     seg fixed(SubmittingPbuid, 6, 32, R)
//@     seg fixed(SecurityId, 8, 32, R)
//@     seg fixed(SecurityIdsource, 4, 32, R)
//@     seg encw(LE, 2, OwnerType)
//@     seg fixed(ClearingFirm, 2, 32, R)
//@     seg encw(LE, 8, (TransactTime % pow2(64)))
//@     seg fixed(UserInfo, 32, 32, R)
//@     seg fixed(OrderId, 16, 32, R)
//@     seg fixed(ClOrdId, 10, 32, R)
//@     seg fixed(ExecId, 16, 32, R)
//@     seg fixed(ExecType, 1, 32, R)
//@     seg fixed(OrdStatus, 1, 32, R)
//@     seg encw(LE, 8, (LastPx % pow2(64)))
//@     seg encw(LE, 8, (LastQty % pow2(64)))
//@     seg encw(LE, 8, (LeavesQty % pow2(64)))
//@     seg encw(LE, 8, (CumQty % pow2(64)))
//@     seg fixed(Side, 1, 32, R)
//@     seg fixed(AccountId, 10, 32, R)
//@     seg fixed(BranchId, 2, 32, R)
//@     seg Wd(ApplExtend.tag, ApplExtend.mv)

//@ layout ExtendNewOrder010 [proto bjse_trade_bin_v0.9, LE]
//@   path always
//@     seg encw(LE, 8, (StopPx % pow2(64)))
//@     seg encw(LE, 8, (MinQty % pow2(64)))
//@     seg encw(LE, 2, MaxPriceLevels)
//@     seg fixed(TimeInForce, 1, 32, R)
//@     seg fixed(CashMargin, 1, 32, R)
//@     seg fixed(SettlType, 1, 32, R)
//@     seg fixed(SettlPeriod, 1, 32, R)

//@ layout ExtendNewOrder040 [proto bjse_trade_bin_v0.9, LE]
//@   path always
//@     seg encw(LE, 8, (StopPx % pow2(64)))
//@     seg encw(LE, 8, (MinQty % pow2(64)))
//@     seg encw(LE, 2, MaxPriceLevels)
//@     seg fixed(TimeInForce, 1, 32, R)
//@     seg fixed(CashMargin, 1, 32, R)

//@ layout ExtendNewOrder041 [proto bjse_trade_bin_v0.9, LE]
//@   path always

//@ layout ExtendNewOrder042 [proto bjse_trade_bin_v0.9, LE]
//@   path always

//@ layout ExtendNewOrder043 [proto bjse_trade_bin_v0.9, LE]
//@   path always

//@ layout ExtendNewOrder044 [proto bjse_trade_bin_v0.9, LE]
//@   path always

//@ layout ExtendNewOrder045 [proto bjse_trade_bin_v0.9, LE]
//@   path always

//@ layout ExtendNewOrder050 [proto bjse_trade_bin_v0.9, LE]
//@   path always
//@     seg encw(LE, 2, ExpirationDays)
//@     seg encw(LE, 1, ExpirationType)
//@     seg fixed(ShareProperty, 2, 32, R)

//@ layout Heartbeat [proto bjse_trade_bin_v0.9, LE]
//@   path always

//@ layout Logon [proto bjse_trade_bin_v0.9, LE]
//@   path always
//@     seg fixed(SenderCompId, 20, 32, R)
//@     seg fixed(TargetCompId, 20, 32, R)
//@     seg encw(LE, 4, (HeartBtInt % pow2(32)))
//@     seg fixed(Password, 16, 32, R)
//@     seg fixed(DefaultApplVerId, 32, 32, R)

//@ layout Logout [proto bjse_trade_bin_v0.9, LE]
//@   path always
//@     seg encw(LE, 4, (SessionStatus % pow2(32)))
//@     seg fixed(Text, 200, 32, R)

//@ layout NewOrder [proto bjse_trade_bin_v0.9, LE]
//@   dyn ApplExtend by ApplId in newOrderApplIdFactoryCache fills
//@   path ApplExtend == nil
//@     seg fixed(ApplId, 3, 32, R)
//@     seg fixed(SubmittingPbuid, 6, 32, R)
//@     seg fixed(SecurityId, 8, 32, R)
//@     seg fixed(SecurityIdsource, 4, 32, R)
//@     seg encw(LE, 2, OwnerType)
//@     seg fixed(ClearingFirm, 2, 32, R)
//@     seg encw(LE, 8, (TransactTime % pow2(64)))
//@     seg fixed(UserInfo, 32, 32, R)
//@     seg fixed(ClOrdId, 10, 32, R)
//@     seg fixed(AccountId, 10, 32, R)
//@     seg fixed(BranchId, 2, 32, R)
//@     seg fixed(OrderRestrictions, 4, 32, R)
//@     seg fixed(Side, 1, 32, R)
//@     seg fixed(OrdType, 1, 32, R)
//@     seg encw(LE, 8, (OrderQty % pow2(64)))
//@     seg encw(LE, 8, (Price % pow2(64)))
//@     seg Wd(tbl(newOrderApplIdFactoryCache, ApplId), zeromv(tbl(newOrderApplIdFactoryCache, ApplId)))
//@   path ApplExtend != nil
//@     seg fixed(ApplId, 3, 32, R)
//@     seg fixed(SubmittingPbuid, 6, 32, R)
//@     seg fixed(SecurityId, 8, 32, R)
//@     seg fixed(SecurityIdsource, 4, 32, R)
//@     seg encw(LE, 2, OwnerType)
//@     seg fixed(ClearingFirm, 2, 32, R)
//@     seg encw(LE, 8, (TransactTime % pow2(64)))
//@     seg fixed(UserInfo, 32, 32, R)
//@     seg fixed(ClOrdId, 10, 32, R)
//@     seg fixed(AccountId, 10, 32, R)
//@     seg fixed(BranchId, 2, 32, R)
//@     seg fixed(OrderRestrictions, 4, 32, R)
//@     seg fixed(Side, 1, 32, R)
//@     seg fixed(OrdType, 1, 32, R)
//@     seg encw(LE, 8, (OrderQty % pow2(64)))
//@     seg encw(LE, 8, (Price % pow2(64)))
//@     seg Wd(ApplExtend.tag, ApplExtend.mv)

//@ layout NoPartitions [proto bjse_trade_bin_v0.9, LE]
//@   path always
//@     seg encw(LE, 4, (PartitionNo % pow2(32)))
//@     seg fixed(PartitionName, 20, 32, R)

//@ layout OrderCancelRequest [proto bjse_trade_bin_v0.9, LE]
//@   path always
//@     seg fixed(ApplId, 3, 32, R)
//@     seg fixed(SubmittingPbuid, 6, 32, R)
//@     seg fixed(SecurityId, 8, 32, R)
//@     seg fixed(SecurityIdsource, 4, 32, R)
//@     seg encw(LE, 2, OwnerType)
//@     seg fixed(ClearingFirm, 2, 32, R)
//@     seg encw(LE, 8, (TransactTime % pow2(64)))
//@     seg fixed(UserInfo, 32, 32, R)
//@     seg fixed(ClOrdId, 10, 32, R)
//@     seg fixed(OrigClOrdId, 10, 32, R)
//@     seg fixed(AccountId, 10, 32, R)
//@     seg fixed(BranchId, 2, 32, R)
//@     seg fixed(OrderId, 16, 32, R)
//@     seg encw(LE, 8, (OrderQty % pow2(64)))

//@ layout PlatformInfo [proto bjse_trade_bin_v0.9, LE]
//@   path always
//@     seg encw(LE, 2, PlatformId)
//@     seg encw(LE, 2, len(NoPartitions))
//@     seg flat(k_obj(tag(NoPartitions)), NoPartitions, 0, len(NoPartitions))

//@ layout PlatformStateInfo [proto bjse_trade_bin_v0.9, LE]
//@   path always
//@     seg encw(LE, 2, PlatformId)
//@     seg encw(LE, 2, PlatformState)

//@ layout Quote [proto bjse_trade_bin_v0.9, LE]
//@   dyn ApplExtend by ApplId in quoteApplIdFactoryCache fills
//@   path ApplExtend == nil
//@     seg fixed(ApplId, 3, 32, R)
//@     seg fixed(SubmittingPbuid, 6, 32, R)
//@     seg fixed(SecurityId, 8, 32, R)
//@     seg fixed(SecurityIdsource, 4, 32, R)
//@     seg encw(LE, 2, OwnerType)
//@     seg fixed(ClearingFirm, 2, 32, R)
//@     seg encw(LE, 8, (TransactTime % pow2(64)))
//@     seg fixed(UserInfo, 32, 32, R)
//@     seg fixed(QuoteMsgId, 10, 32, R)
//@     seg fixed(AccountId, 10, 32, R)
//@     seg fixed(QuoteReqId, 10, 32, R)
//@     seg encw(LE, 1, QuoteType)
//@     seg encw(LE, 8, (BidPx % pow2(64)))
//@     seg encw(LE, 8, (OfferPx % pow2(64)))
//@     seg encw(LE, 8, (BidSize % pow2(64)))
//@     seg encw(LE, 8, (OfferSize % pow2(64)))
//@     seg Wd(tbl(quoteApplIdFactoryCache, ApplId), zeromv(tbl(quoteApplIdFactoryCache, ApplId)))
//@   path ApplExtend != nil
//@     seg fixed(ApplId, 3, 32, R)
//@     seg fixed(SubmittingPbuid, 6, 32, R)
//@     seg fixed(SecurityId, 8, 32, R)
//@     seg fixed(SecurityIdsource, 4, 32, R)
//@     seg encw(LE, 2, OwnerType)
//@     seg fixed(ClearingFirm, 2, 32, R)
//@     seg encw(LE, 8, (TransactTime % pow2(64)))
//@     seg fixed(UserInfo, 32, 32, R)
//@     seg fixed(QuoteMsgId, 10, 32, R)
//@     seg fixed(AccountId, 10, 32, R)
//@     seg fixed(QuoteReqId, 10, 32, R)
//@     seg encw(LE, 1, QuoteType)
//@     seg encw(LE, 8, (BidPx % pow2(64)))
//@     seg encw(LE, 8, (OfferPx % pow2(64)))
//@     seg encw(LE, 8, (BidSize % pow2(64)))
//@     seg encw(LE, 8, (OfferSize % pow2(64)))
//@     seg Wd(ApplExtend.tag, ApplExtend.mv)

//@ layout Quote1 [proto bjse_trade_bin_v0.9, LE]
//@   path always
//@     seg fixed(QuoteId, 10, 32, R)
//@     seg encw(LE, 8, (QuotePrice % pow2(64)))
//@     seg encw(LE, 8, (QuoteQty % pow2(64)))

//@ layout Quote2 [proto bjse_trade_bin_v0.9, LE]
//@   path always
//@     seg fixed(QuoteId, 10, 32, R)
//@     seg encw(LE, 8, (QuotePrice % pow2(64)))
//@     seg encw(LE, 8, (QuoteQty % pow2(64)))

//@ layout QuoteExtend070 [proto bjse_trade_bin_v0.9, LE]
//@   path always
//@     seg fixed(BranchId, 2, 32, R)
//@     seg fixed(QuoteId, 10, 32, R)
//@     seg fixed(QuoteRespId, 10, 32, R)
//@     seg encw(LE, 1, PrivateQuote)
//@     seg encw(LE, 8, (ValidUntilTime % pow2(64)))
//@     seg encw(LE, 1, PriceType)
//@     seg fixed(CashMargin, 1, 32, R)
//@     seg fixed(CounterPartyPbuid, 6, 32, R)
//@     seg fixed(Memo, 120, 32, R)

//@ layout QuoteExtend071 [proto bjse_trade_bin_v0.9, LE]
//@   path always

//@ layout QuoteResponse [proto bjse_trade_bin_v0.9, LE]
//@   dyn ApplExtend by ApplId in quoteResponseApplIdFactoryCache fills
//@   path ApplExtend == nil
//@     seg fixed(ApplId, 3, 32, R)
//@     seg fixed(ReportingPbuid, 6, 32, R)
//@     seg fixed(SubmittingPbuid, 6, 32, R)
//@     seg fixed(SecurityId, 8, 32, R)
//@     seg fixed(SecurityIdsource, 4, 32, R)
//@     seg encw(LE, 2, OwnerType)
//@     seg fixed(ClearingFirm, 2, 32, R)
//@     seg encw(LE, 8, (TransactTime % pow2(64)))
//@     seg fixed(UserInfo, 32, 32, R)
//@     seg fixed(ClOrdId, 10, 32, R)
//@     seg fixed(AccountId, 10, 32, R)
//@     seg fixed(BranchId, 2, 32, R)
//@     seg fixed(QuoteRespId, 10, 32, R)
//@     seg encw(LE, 1, QuoteRespType)
//@     seg fixed(Side, 1, 32, R)
//@     seg encw(LE, 8, (ValidUntilTime % pow2(64)))
//@     seg encw(LE, 1, QuoteType)
//@     seg encw(LE, 1, PriceType)
//@     seg encw(LE, 2, len(Quote2))
//@     seg flat(k_obj(tag(Quote2)), Quote2, 0, len(Quote2))
//@     seg Wd(tbl(quoteResponseApplIdFactoryCache, ApplId), zeromv(tbl(quoteResponseApplIdFactoryCache, ApplId)))
//@   path ApplExtend != nil
//@     seg fixed(ApplId, 3, 32, R)
//@     seg fixed(ReportingPbuid, 6, 32, R)
//@     seg fixed(SubmittingPbuid, 6, 32, R)
//@     seg fixed(SecurityId, 8, 32, R)
//@     seg fixed(SecurityIdsource, 4, 32, R)
//@     seg encw(LE, 2, OwnerType)
//@     seg fixed(ClearingFirm, 2, 32, R)
//@     seg encw(LE, 8, (TransactTime % pow2(64)))
//@     seg fixed(UserInfo, 32, 32, R)
//@     seg fixed(ClOrdId, 10, 32, R)
//@     seg fixed(AccountId, 10, 32, R)
//@     seg fixed(BranchId, 2, 32, R)
//@     seg fixed(QuoteRespId, 10, 32, R)
//@     seg encw(LE, 1, QuoteRespType)
//@     seg fixed(Side, 1, 32, R)
//@     seg encw(LE, 8, (ValidUntilTime % pow2(64)))
//@     seg encw(LE, 1, QuoteType)
//@     seg encw(LE, 1, PriceType)
//@     seg encw(LE, 2, len(Quote2))
//@     seg flat(k_obj(tag(Quote2)), Quote2, 0, len(Quote2))
//@     seg Wd(ApplExtend.tag, ApplExtend.mv)

//@ layout QuoteResponseExtend070 [proto bjse_trade_bin_v0.9, LE]
//@   path always
//@     seg fixed(CashMargin, 1, 32, R)

//@ layout QuoteStatusReport [proto bjse_trade_bin_v0.9, LE]
//@   dyn ApplExtend by ApplId in quoteStatusReportApplIdFactoryCache fills
//@   path ApplExtend == nil
//@     seg encw(LE, 4, (PartitionNo % pow2(32)))
//@     seg encw(LE, 8, (ReportIndex % pow2(64)))
//@     seg fixed(ApplId, 3, 32, R)
//@     seg fixed(ReportingPbuid, 6, 32, R)
//@     seg fixed(SubmittingPbuid, 6, 32, R)
//@     seg fixed(SecurityId, 8, 32, R)
//@     seg fixed(SecurityIdsource, 4, 32, R)
//@     seg encw(LE, 2, OwnerType)
//@     seg fixed(ClearingFirm, 2, 32, R)
//@     seg encw(LE, 8, (TransactTime % pow2(64)))
//@     seg fixed(UserInfo, 32, 32, R)
//@     seg fixed(QuoteMsgId, 10, 32, R)
//@     seg fixed(AccountId, 10, 32, R)
//@     seg fixed(QuoteReqId, 10, 32, R)
//@     seg encw(LE, 8, QuoteRjectReason)
//@     seg encw(LE, 1, QuoteType)
//@     seg encw(LE, 8, (BidPx % pow2(64)))
//@     seg encw(LE, 8, (OfferPx % pow2(64)))
//@     seg encw(LE, 8, (BidSize % pow2(64)))
//@     seg encw(LE, 8, (OfferSize % pow2(64)))
//@     seg Wd(tbl(quoteStatusReportApplIdFactoryCache, ApplId), zeromv(tbl(quoteStatusReportApplIdFactoryCache, ApplId)))
//@   path ApplExtend != nil
//@     seg encw(LE, 4, (PartitionNo % pow2(32)))
//@     seg encw(LE, 8, (ReportIndex % pow2(64)))
//@     seg fixed(ApplId, 3, 32, R)
//@     seg fixed(ReportingPbuid, 6, 32, R)
//@     seg fixed(SubmittingPbuid, 6, 32, R)
//@     seg fixed(SecurityId, 8, 32, R)
//@     seg fixed(SecurityIdsource, 4, 32, R)
//@     seg encw(LE, 2, OwnerType)
//@     seg fixed(ClearingFirm, 2, 32, R)
//@     seg encw(LE, 8, (TransactTime % pow2(64)))
//@     seg fixed(UserInfo, 32, 32, R)
//@     seg fixed(QuoteMsgId, 10, 32, R)
//@     seg fixed(AccountId, 10, 32, R)
//@     seg fixed(QuoteReqId, 10, 32, R)
//@     seg encw(LE, 8, QuoteRjectReason)
//@     seg encw(LE, 1, QuoteType)
//@     seg encw(LE, 8, (BidPx % pow2(64)))
//@     seg encw(LE, 8, (OfferPx % pow2(64)))
//@     seg encw(LE, 8, (BidSize % pow2(64)))
//@     seg encw(LE, 8, (OfferSize % pow2(64)))
//@     seg Wd(ApplExtend.tag, ApplExtend.mv)

//@ layout QuoteStatusReportExtend070 [proto bjse_trade_bin_v0.9, LE]
//@   path always
//@     seg fixed(BranchId, 2, 32, R)
//@     seg fixed(OrderId, 16, 32, R)
//@     seg fixed(ExecId, 16, 32, R)
//@     seg fixed(QuoteRespId, 10, 32, R)
//@     seg encw(LE, 1, PrivateQuote)
//@     seg fixed(Side, 1, 32, R)
//@     seg encw(LE, 1, PriceType)
//@     seg encw(LE, 8, (ValidUntilTime % pow2(64)))
//@     seg fixed(CashMargin, 1, 32, R)
//@     seg fixed(CounterPartyPbuid, 6, 32, R)
//@     seg fixed(Memo, 120, 32, R)
//@     seg encw(LE, 2, len(Quote1))
//@     seg flat(k_obj(tag(Quote1)), Quote1, 0, len(Quote1))

//@ layout ReportExtend010 [proto bjse_trade_bin_v0.9, LE]
//@   path always
//@     seg fixed(CashMargin, 1, 32, R)
//@     seg fixed(SettlType, 1, 32, R)
//@     seg fixed(SettlPeriod, 1, 32, R)

//@ layout ReportExtend040 [proto bjse_trade_bin_v0.9, LE]
//@   path always
//@     seg fixed(CashMargin, 1, 32, R)

//@ layout ReportExtend050 [proto bjse_trade_bin_v0.9, LE]
//@   path always
//@     seg encw(LE, 2, ExpirationDays)
//@     seg encw(LE, 1, ExpirationType)
//@     seg encw(LE, 4, MaturityDate)
//@     seg fixed(ShareProperty, 2, 32, R)

//@ layout ReportFinished [proto bjse_trade_bin_v0.9, LE]
//@   path always
//@     seg encw(LE, 4, (PartitionNo % pow2(32)))
//@     seg encw(LE, 8, (ReportIndex % pow2(64)))
//@     seg encw(LE, 2, PlatformId)

//@ layout ReportPartitionSync [proto bjse_trade_bin_v0.9, LE]
//@   path always
//@     seg encw(LE, 4, (PartitionNo % pow2(32)))
//@     seg encw(LE, 8, (ReportIndex % pow2(64)))

//@ layout ReportSynchronization [proto bjse_trade_bin_v0.9, LE]
//@   path always
//@     seg encw(LE, 2, len(ReportPartitionSync))
//@     seg flat(k_obj(tag(ReportPartitionSync)), ReportPartitionSync, 0, len(ReportPartitionSync))

//@ layout TradeCaptureConfirm [proto bjse_trade_bin_v0.9, LE]
//@   dyn ApplExtend by ApplId in tradeCaptureConfirmApplIdFactoryCache fills
//@   path ApplExtend == nil
//@     seg encw(LE, 4, (PartitionNo % pow2(32)))
//@     seg encw(LE, 8, (ReportIndex % pow2(64)))
//@     seg fixed(ApplId, 3, 32, R)
//@     seg fixed(ReportingPbuid, 6, 32, R)
//@     seg fixed(SubmittingPbuid, 6, 32, R)
//@     seg fixed(SecurityId, 8, 32, R)
//@     seg fixed(SecurityIdsource, 4, 32, R)
//@     seg encw(LE, 2, OwnerType)
//@     seg fixed(ClearingFirm, 2, 32, R)
//@     seg encw(LE, 8, (TransactTime % pow2(64)))
//@     seg fixed(UserInfo, 32, 32, R)
//@     seg fixed(TradeId, 16, 32, R)
//@     seg fixed(TradeReportId, 10, 32, R)
//@     seg encw(LE, 1, TradeReportType)
//@     seg encw(LE, 1, TradeReportTransType)
//@     seg fixed(TradeHandlingInstr, 1, 32, R)
//@     seg encw(LE, 8, (LastPx % pow2(64)))
//@     seg encw(LE, 8, (LastQty % pow2(64)))
//@     seg encw(LE, 2, TrdType)
//@     seg encw(LE, 2, TrdSubType)
//@     seg encw(LE, 4, ConfirmId)
//@     seg fixed(ExecId, 16, 32, R)
//@     seg fixed(Side, 1, 32, R)
//@     seg fixed(Pbuid, 6, 32, R)
//@     seg fixed(AccountId, 10, 32, R)
//@     seg fixed(BranchId, 2, 32, R)
//@     seg fixed(CounterPartyPbuid, 6, 32, R)
//@     seg fixed(CounterPartyAccountId, 10, 32, R)
//@     seg fixed(CounterPartyBranchId, 2, 32, R)
//@     seg Wd(tbl(tradeCaptureConfirmApplIdFactoryCache, ApplId), zeromv(tbl(tradeCaptureConfirmApplIdFactoryCache, ApplId)))
//@   path ApplExtend != nil
//@     seg encw(LE, 4, (PartitionNo % pow2(32)))
//@     seg encw(LE, 8, (ReportIndex % pow2(64)))
//@     seg fixed(ApplId, 3, 32, R)
//@     seg fixed(ReportingPbuid, 6, 32, R)
//@     seg fixed(SubmittingPbuid, 6, 32, R)
//@     seg fixed(SecurityId, 8, 32, R)
//@     seg fixed(SecurityIdsource, 4, 32, R)
//@     seg encw(LE, 2, OwnerType)
//@     seg fixed(ClearingFirm, 2, 32, R)
//@     seg encw(LE, 8, (TransactTime % pow2(64)))
//@     seg fixed(UserInfo, 32, 32, R)
//@     seg fixed(TradeId, 16, 32, R)
//@     seg fixed(TradeReportId, 10, 32, R)
//@     seg encw(LE, 1, TradeReportType)
//@     seg encw(LE, 1, TradeReportTransType)
//@     seg fixed(TradeHandlingInstr, 1, 32, R)
//@     seg encw(LE, 8, (LastPx % pow2(64)))
//@     seg encw(LE, 8, (LastQty % pow2(64)))
//@     seg encw(LE, 2, TrdType)
//@     seg encw(LE, 2, TrdSubType)
//@     seg encw(LE, 4, ConfirmId)
//@     seg fixed(ExecId, 16, 32, R)
//@     seg fixed(Side, 1, 32, R)
//@     seg fixed(Pbuid, 6, 32, R)
//@     seg fixed(AccountId, 10, 32, R)
//@     seg fixed(BranchId, 2, 32, R)
//@     seg fixed(CounterPartyPbuid, 6, 32, R)
//@     seg fixed(CounterPartyAccountId, 10, 32, R)
//@     seg fixed(CounterPartyBranchId, 2, 32, R)
//@     seg Wd(ApplExtend.tag, ApplExtend.mv)

//@ layout TradeCaptureConfirmExtend031 [proto bjse_trade_bin_v0.9, LE]
//@   path always
//@     seg fixed(MemberId, 6, 32, R)
//@     seg fixed(TraderCode, 5, 32, R)
//@     seg fixed(CounterPartyMemberId, 6, 32, R)
//@     seg fixed(CounterPartyTraderCode, 5, 32, R)
//@     seg fixed(SettlType, 1, 32, R)
//@     seg fixed(SettlPeriod, 1, 32, R)
//@     seg fixed(CashMargin, 1, 32, R)
//@     seg fixed(Memo, 120, 32, R)

//@ layout TradeCaptureConfirmExtend051 [proto bjse_trade_bin_v0.9, LE]
//@   path always
//@     seg encw(LE, 2, ExpirationDays)
//@     seg encw(LE, 1, ExpirationType)
//@     seg encw(LE, 4, MaturityDate)
//@     seg fixed(ShareProperty, 2, 32, R)

//@ layout TradeCaptureConfirmExtend060 [proto bjse_trade_bin_v0.9, LE]
//@   path always

//@ layout TradeCaptureConfirmExtend061 [proto bjse_trade_bin_v0.9, LE]
//@   path always

//@ layout TradeCaptureConfirmExtend062 [proto bjse_trade_bin_v0.9, LE]
//@   path always
//@     seg fixed(CashMargin, 1, 32, R)

//@ layout TradeCaptureReport [proto bjse_trade_bin_v0.9, LE]
//@   dyn ApplExtend by ApplId in tradeCaptureReportApplIdFactoryCache fills
//@   path ApplExtend == nil
//@     seg fixed(ApplId, 3, 32, R)
//@     seg fixed(SubmittingPbuid, 6, 32, R)
//@     seg fixed(SecurityId, 8, 32, R)
//@     seg fixed(SecurityIdsource, 4, 32, R)
//@     seg encw(LE, 2, OwnerType)
//@     seg fixed(ClearingFirm, 2, 32, R)
//@     seg encw(LE, 8, (TransactTime % pow2(64)))
//@     seg fixed(UserInfo, 32, 32, R)
//@     seg fixed(TradeReportId, 10, 32, R)
//@     seg encw(LE, 1, TradeReportType)
//@     seg encw(LE, 1, TradeReportTransType)
//@     seg fixed(TradeHandlingInstr, 1, 32, R)
//@     seg fixed(TradeReportRefId, 10, 32, R)
//@     seg encw(LE, 8, (LastPx % pow2(64)))
//@     seg encw(LE, 8, (LastQty % pow2(64)))
//@     seg encw(LE, 2, TrdType)
//@     seg encw(LE, 2, TrdSubType)
//@     seg encw(LE, 4, ConfirmId)
//@     seg fixed(Side, 1, 32, R)
//@     seg fixed(Pbuid, 6, 32, R)
//@     seg fixed(AccountId, 10, 32, R)
//@     seg fixed(BranchId, 2, 32, R)
//@     seg fixed(CounterPartyPbuid, 6, 32, R)
//@     seg fixed(CounterPartyAccountId, 10, 32, R)
//@     seg fixed(CounterPartyBranchId, 2, 32, R)
//@     seg Wd(tbl(tradeCaptureReportApplIdFactoryCache, ApplId), zeromv(tbl(tradeCaptureReportApplIdFactoryCache, ApplId)))
//@   path ApplExtend != nil
//@     seg fixed(ApplId, 3, 32, R)
//@     seg fixed(SubmittingPbuid, 6, 32, R)
//@     seg fixed(SecurityId, 8, 32, R)
//@     seg fixed(SecurityIdsource, 4, 32, R)
//@     seg encw(LE, 2, OwnerType)
//@     seg fixed(ClearingFirm, 2, 32, R)
//@     seg encw(LE, 8, (TransactTime % pow2(64)))
//@     seg fixed(UserInfo, 32, 32, R)
//@     seg fixed(TradeReportId, 10, 32, R)
//@     seg encw(LE, 1, TradeReportType)
//@     seg encw(LE, 1, TradeReportTransType)
//@     seg fixed(TradeHandlingInstr, 1, 32, R)
//@     seg fixed(TradeReportRefId, 10, 32, R)
//@     seg encw(LE, 8, (LastPx % pow2(64)))
//@     seg encw(LE, 8, (LastQty % pow2(64)))
//@     seg encw(LE, 2, TrdType)
//@     seg encw(LE, 2, TrdSubType)
//@     seg encw(LE, 4, ConfirmId)
//@     seg fixed(Side, 1, 32, R)
//@     seg fixed(Pbuid, 6, 32, R)
//@     seg fixed(AccountId, 10, 32, R)
//@     seg fixed(BranchId, 2, 32, R)
//@     seg fixed(CounterPartyPbuid, 6, 32, R)
//@     seg fixed(CounterPartyAccountId, 10, 32, R)
//@     seg fixed(CounterPartyBranchId, 2, 32, R)
//@     seg Wd(ApplExtend.tag, ApplExtend.mv)

//@ layout TradeCaptureReportAck [proto bjse_trade_bin_v0.9, LE]
//@   dyn ApplExtend by ApplId in tradeCaptureReportAckApplIdFactoryCache fills
//@   path ApplExtend == nil
//@     seg encw(LE, 4, (PartitionNo % pow2(32)))
//@     seg encw(LE, 8, (ReportIndex % pow2(64)))
//@     seg fixed(ApplId, 3, 32, R)
//@     seg fixed(ReportingPbuid, 6, 32, R)
//@     seg fixed(SubmittingPbuid, 6, 32, R)
//@     seg fixed(SecurityId, 8, 32, R)
//@     seg fixed(SecurityIdsource, 4, 32, R)
//@     seg encw(LE, 2, OwnerType)
//@     seg fixed(ClearingFirm, 2, 32, R)
//@     seg encw(LE, 8, (TransactTime % pow2(64)))
//@     seg fixed(UserInfo, 32, 32, R)
//@     seg fixed(TradeId, 16, 32, R)
//@     seg fixed(TradeReportId, 10, 32, R)
//@     seg encw(LE, 1, TradeReportType)
//@     seg encw(LE, 1, TradeReportTransType)
//@     seg fixed(TradeHandlingInstr, 1, 32, R)
//@     seg fixed(TradeReportRefId, 10, 32, R)
//@     seg encw(LE, 1, TrdAckStatus)
//@     seg encw(LE, 1, TrdRptStatus)
//@     seg encw(LE, 2, TradeReportRejectReason)
//@     seg encw(LE, 8, (LastPx % pow2(64)))
//@     seg encw(LE, 8, (LastQty % pow2(64)))
//@     seg encw(LE, 2, TrdType)
//@     seg encw(LE, 2, TrdSubType)
//@     seg encw(LE, 4, ConfirmId)
//@     seg fixed(ExecId, 16, 32, R)
//@     seg fixed(Side, 1, 32, R)
//@     seg fixed(Pbuid, 6, 32, R)
//@     seg fixed(AccountId, 10, 32, R)
//@     seg fixed(BranchId, 2, 32, R)
//@     seg fixed(CounterPartyPbuid, 6, 32, R)
//@     seg fixed(CounterPartyAccountId, 10, 32, R)
//@     seg fixed(CounterPartyBranchId, 2, 32, R)
//@     seg Wd(tbl(tradeCaptureReportAckApplIdFactoryCache, ApplId), zeromv(tbl(tradeCaptureReportAckApplIdFactoryCache, ApplId)))
//@   path ApplExtend != nil
//@     seg encw(LE, 4, (PartitionNo % pow2(32)))
//@     seg encw(LE, 8, (ReportIndex % pow2(64)))
//@     seg fixed(ApplId, 3, 32, R)
//@     seg fixed(ReportingPbuid, 6, 32, R)
//@     seg fixed(SubmittingPbuid, 6, 32, R)
//@     seg fixed(SecurityId, 8, 32, R)
//@     seg fixed(SecurityIdsource, 4, 32, R)
//@     seg encw(LE, 2, OwnerType)
//@     seg fixed(ClearingFirm, 2, 32, R)
//@     seg encw(LE, 8, (TransactTime % pow2(64)))
//@     seg fixed(UserInfo, 32, 32, R)
//@     seg fixed(TradeId, 16, 32, R)
//@     seg fixed(TradeReportId, 10, 32, R)
//@     seg encw(LE, 1, TradeReportType)
//@     seg encw(LE, 1, TradeReportTransType)
//@     seg fixed(TradeHandlingInstr, 1, 32, R)
//@     seg fixed(TradeReportRefId, 10, 32, R)
//@     seg encw(LE, 1, TrdAckStatus)
//@     seg encw(LE, 1, TrdRptStatus)
//@     seg encw(LE, 2, TradeReportRejectReason)
//@     seg encw(LE, 8, (LastPx % pow2(64)))
//@     seg encw(LE, 8, (LastQty % pow2(64)))
//@     seg encw(LE, 2, TrdType)
//@     seg encw(LE, 2, TrdSubType)
//@     seg encw(LE, 4, ConfirmId)
//@     seg fixed(ExecId, 16, 32, R)
//@     seg fixed(Side, 1, 32, R)
//@     seg fixed(Pbuid, 6, 32, R)
//@     seg fixed(AccountId, 10, 32, R)
//@     seg fixed(BranchId, 2, 32, R)
//@     seg fixed(CounterPartyPbuid, 6, 32, R)
//@     seg fixed(CounterPartyAccountId, 10, 32, R)
//@     seg fixed(CounterPartyBranchId, 2, 32, R)
//@     seg Wd(ApplExtend.tag, ApplExtend.mv)

//@ layout TradeCaptureReportAckExtend031 [proto bjse_trade_bin_v0.9, LE]
//@   path always
//@     seg fixed(MemberId, 6, 32, R)
//@     seg fixed(TraderCode, 5, 32, R)
//@     seg fixed(CounterPartyMemberId, 6, 32, R)
//@     seg fixed(CounterPartyTraderCode, 5, 32, R)
//@     seg fixed(SettlType, 1, 32, R)
//@     seg fixed(SettlPeriod, 1, 32, R)
//@     seg fixed(CashMargin, 1, 32, R)
//@     seg fixed(Memo, 120, 32, R)

//@ layout TradeCaptureReportAckExtend051 [proto bjse_trade_bin_v0.9, LE]
//@   path always
//@     seg encw(LE, 2, ExpirationDays)
//@     seg encw(LE, 1, ExpirationType)
//@     seg fixed(ShareProperty, 2, 32, R)

//@ layout TradeCaptureReportAckExtend060 [proto bjse_trade_bin_v0.9, LE]
//@   path always

//@ layout TradeCaptureReportAckExtend061 [proto bjse_trade_bin_v0.9, LE]
//@   path always

//@ layout TradeCaptureReportAckExtend062 [proto bjse_trade_bin_v0.9, LE]
//@   path always
//@     seg fixed(CashMargin, 1, 32, R)

//@ layout TradeCaptureReportExtend031 [proto bjse_trade_bin_v0.9, LE]
//@   path always
//@     seg fixed(MemberId, 6, 32, R)
//@     seg fixed(TraderCode, 5, 32, R)
//@     seg fixed(CounterPartyMemberId, 6, 32, R)
//@     seg fixed(CounterPartyTraderCode, 5, 32, R)
//@     seg fixed(SettlType, 1, 32, R)
//@     seg fixed(SettlPeriod, 1, 32, R)
//@     seg fixed(CashMargin, 1, 32, R)
//@     seg fixed(Memo, 120, 32, R)

//@ layout TradeCaptureReportExtend051 [proto bjse_trade_bin_v0.9, LE]
//@   path always
//@     seg encw(LE, 2, ExpirationDays)
//@     seg encw(LE, 1, ExpirationType)
//@     seg fixed(ShareProperty, 2, 32, R)

//@ layout TradeCaptureReportExtend060 [proto bjse_trade_bin_v0.9, LE]
//@   path always

//@ layout TradeCaptureReportExtend061 [proto bjse_trade_bin_v0.9, LE]
//@   path always

//@ layout TradeCaptureReportExtend062 [proto bjse_trade_bin_v0.9, LE]
//@   path always
//@     seg fixed(CashMargin, 1, 32, R)

//@ layout TradingSessionStatus [proto bjse_trade_bin_v0.9, LE]
//@   path always
//@     seg fixed(MarketId, 3, 32, R)
//@     seg fixed(MarketSegmentId, 3, 32, R)
//@     seg fixed(TradingSessionId, 3, 32, R)
//@     seg fixed(TradingSessionSubId, 3, 32, R)
//@     seg encw(LE, 1, TradSesStatus)
//@     seg encw(LE, 8, (TradSesStartTime % pow2(64)))
