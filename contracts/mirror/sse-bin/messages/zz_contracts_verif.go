//go:build verif

// Pinned wire layouts and discriminator tables of package sse_bin for the gocv verifier (/verif).
// Comments only. Each layout lists, per Encode path, the byte segments written (as contract
// expressions over the field names) and the fields the encoder writes back; it was produced by
// `gocv bootstrap` from the pinned tree and is from then on the specification the code is checked
// against (DESIGN.md 6.2). A byte-identical mirror is kept under /verif/contracts/mirror.

package sse_bin

//@ table sseBinaryMsgTypeFactoryCache : int
//@   33->Heartbeat
//@   40->Logon
//@   41->Logout
//@   58->NewOrderSingle
//@   61->OrderCancel
//@   32->Confirm
//@   59->CancelReject
//@   103->Report
//@   204->OrderReject
//@   209->PlatformState
//@   208->ExecRptInfo
//@   206->ExecRptSync
//@   207->ExecRptSyncRsp
//@   210->ExecRptEndOfStream

//@ layout CancelReject [proto sse_bin_v0.57, BE]
//@   path always
//@     seg fixed(Pbu, 8, 32, R)
//@     seg encw(BE, 4, SetId)
//@     seg encw(BE, 8, ReportIndex)
//@     seg encw(BE, 4, BizId)
//@     seg fixed(BizPbu, 8, 32, R)
//@     seg fixed(ClOrdId, 10, 32, R)
//@     seg fixed(SecurityId, 12, 32, R)
//@     seg fixed(OrigClOrdId, 10, 32, R)
//@     seg fixed(BranchId, 8, 32, R)
//@     seg encw(BE, 4, CxlRejReason)
//@     seg encw(BE, 4, TradeDate)
//@     seg encw(BE, 8, TransactTime)
//@     seg fixed(UserInfo, 32, 32, R)

//@ layout Confirm [proto sse_bin_v0.57, BE]
//@   path always
//@     seg fixed(Pbu, 8, 32, R)
//@     seg encw(BE, 4, SetId)
//@     seg encw(BE, 8, ReportIndex)
//@     seg encw(BE, 4, BizId)
//@     seg fixed(ExecType, 1, 32, R)
//@     seg fixed(BizPbu, 8, 32, R)
//@     seg fixed(ClOrdId, 10, 32, R)
//@     seg fixed(SecurityId, 12, 32, R)
//@     seg fixed(Account, 13, 32, R)
//@     seg encw(BE, 1, OwnerType)
//@     seg fixed(Side, 1, 32, R)
//@     seg encw(BE, 8, (Price % pow2(64)))
//@     seg encw(BE, 8, (OrderQty % pow2(64)))
//@     seg encw(BE, 8, (LeavesQty % pow2(64)))
//@     seg encw(BE, 8, (CxlQty % pow2(64)))
//@     seg fixed(OrdType, 1, 32, R)
//@     seg fixed(TimeInForce, 1, 32, R)
//@     seg fixed(OrdStatus, 1, 32, R)
//@     seg fixed(CreditTag, 2, 32, R)
//@     seg fixed(OrigClOrdId, 10, 32, R)
//@     seg fixed(ClearingFirm, 8, 32, R)
//@     seg fixed(BranchId, 8, 32, R)
//@     seg encw(BE, 4, OrdRejReason)
//@     seg fixed(OrdCnfmId, 16, 32, R)
//@     seg fixed(OrigOrdCnfmId, 16, 32, R)
//@     seg encw(BE, 4, TradeDate)
//@     seg encw(BE, 8, TransactTime)
//@     seg fixed(UserInfo, 32, 32, R)

//@ layout ExecRptEndOfStream [proto sse_bin_v0.57, BE]
//@   path always
//@     seg fixed(Pbu, 8, 32, R)
//@     seg encw(BE, 4, SetId)
//@     seg encw(BE, 8, EndReportIndex)

//@ layout ExecRptInfo [proto sse_bin_v0.57, BE]
//@   path always
//@     seg encw(BE, 2, PlatformId)
//@     seg encw(BE, 2, len(Pbu))
//@     seg flat(k_fix(8, 32, R), Pbu, 0, len(Pbu))
//@     seg encw(BE, 2, len(SetId))
//@     seg flat(k_enc(BE, 4), SetId, 0, len(SetId))

//@ layout ExecRptSync [proto sse_bin_v0.57, BE]
//@   path always
//@     seg encw(BE, 2, len(SubExecRptSync))
//@     seg flat(k_obj(tag(SubExecRptSync)), SubExecRptSync, 0, len(SubExecRptSync))

//@ layout ExecRptSyncRsp [proto sse_bin_v0.57, BE]
//@   path always
//@     seg encw(BE, 2, len(SubExecRptSyncRsp))
//@     seg flat(k_obj(tag(SubExecRptSyncRsp)), SubExecRptSyncRsp, 0, len(SubExecRptSyncRsp))

//@ layout Heartbeat [proto sse_bin_v0.57, BE]
//@   path always

//@ layout Logon [proto sse_bin_v0.57, BE]
//@   path always
//@     seg fixed(SenderCompId, 32, 32, R)
//@     seg fixed(TargetCompId, 32, 32, R)
//@     seg encw(BE, 2, HeartBtInt)
//@     seg fixed(PrtclVersion, 8, 32, R)
//@     seg encw(BE, 4, TradeDate)
//@     seg encw(BE, 4, Qsize)

//@ layout Logout [proto sse_bin_v0.57, BE]
//@   path always
//@     seg encw(BE, 4, SessionStatus)
//@     seg fixed(Text, 64, 32, R)

//@ layout NewOrderSingle [proto sse_bin_v0.57, BE]
//@   path always
//@     seg encw(BE, 4, BizId)
//@     seg fixed(BizPbu, 8, 32, R)
//@     seg fixed(ClOrdId, 10, 32, R)
//@     seg fixed(SecurityId, 12, 32, R)
//@     seg fixed(Account, 13, 32, R)
//@     seg encw(BE, 1, OwnerType)
//@     seg fixed(Side, 1, 32, R)
//@     seg encw(BE, 8, (Price % pow2(64)))
//@     seg encw(BE, 8, (OrderQty % pow2(64)))
//@     seg fixed(OrdType, 1, 32, R)
//@     seg fixed(TimeInForce, 1, 32, R)
//@     seg encw(BE, 8, TransactTime)
//@     seg fixed(CreditTag, 2, 32, R)
//@     seg fixed(ClearingFirm, 8, 32, R)
//@     seg fixed(BranchId, 8, 32, R)
//@     seg fixed(UserInfo, 32, 32, R)

//@ layout OrderCancel [proto sse_bin_v0.57, BE]
//@   path always
//@     seg encw(BE, 4, BizId)
//@     seg fixed(BizPbu, 8, 32, R)
//@     seg fixed(ClOrdId, 10, 32, R)
//@     seg fixed(SecurityId, 12, 32, R)
//@     seg fixed(Account, 13, 32, R)
//@     seg encw(BE, 1, OwnerType)
//@     seg fixed(Side, 1, 32, R)
//@     seg fixed(OrigClOrdId, 10, 32, R)
//@     seg encw(BE, 8, TransactTime)
//@     seg fixed(BranchId, 8, 32, R)
//@     seg fixed(UserInfo, 32, 32, R)

//@ layout OrderReject [proto sse_bin_v0.57, BE]
//@   path always
//@     seg encw(BE, 4, BizId)
//@     seg fixed(BizPbu, 8, 32, R)
//@     seg fixed(ClOrdId, 10, 32, R)
//@     seg fixed(SecurityId, 12, 32, R)
//@     seg encw(BE, 4, OrdRejReason)
//@     seg encw(BE, 4, TradeDate)
//@     seg encw(BE, 8, TransactTime)
//@     seg fixed(UserInfo, 32, 32, R)

//@ layout PlatformState [proto sse_bin_v0.57, BE]
//@   path always
//@     seg encw(BE, 2, PlatformId)
//@     seg encw(BE, 2, PlatformState)

//@ layout Report [proto sse_bin_v0.57, BE]
//@   path always
//@     seg fixed(Pbu, 8, 32, R)
//@     seg encw(BE, 4, SetId)
//@     seg encw(BE, 8, ReportIndex)
//@     seg encw(BE, 4, BizId)
//@     seg fixed(ExecType, 1, 32, R)
//@     seg fixed(BizPbu, 8, 32, R)
//@     seg fixed(ClOrdId, 10, 32, R)
//@     seg fixed(SecurityId, 12, 32, R)
//@     seg fixed(Account, 13, 32, R)
//@     seg encw(BE, 1, OwnerType)
//@     seg encw(BE, 8, OrderEntryTime)
//@     seg encw(BE, 8, (LastPx % pow2(64)))
//@     seg encw(BE, 8, (LastQty % pow2(64)))
//@     seg encw(BE, 8, (GrossTradeAmt % pow2(64)))
//@     seg fixed(Side, 1, 32, R)
//@     seg encw(BE, 8, (OrderQty % pow2(64)))
//@     seg encw(BE, 8, (LeavesQty % pow2(64)))
//@     seg fixed(OrdStatus, 1, 32, R)
//@     seg fixed(CreditTag, 2, 32, R)
//@     seg fixed(ClearingFirm, 8, 32, R)
//@     seg fixed(BranchId, 8, 32, R)
//@     seg fixed(TrdCnfmId, 16, 32, R)
//@     seg fixed(OrdCnfmId, 16, 32, R)
//@     seg encw(BE, 4, TradeDate)
//@     seg encw(BE, 8, TransactTime)
//@     seg fixed(UserInfo, 32, 32, R)

//@ layout SseBinary [proto sse_bin_v0.57, BE, frame len=MsgBodyLen body=Body cksum=Checksum alg=bsum256]
//@   dyn Body by MsgType in sseBinaryMsgTypeFactoryCache
//@   path Body != nil
//@     seg encw(BE, 4, MsgType)
//@     seg encw(BE, 8, MsgSeqNum)
//@     seg encw(BE, 4, (len(Wd(Body.tag, Body.mv)) % pow2(32)))
//@     seg Wd(Body.tag, Body.mv)
//@     seg encw(BE, 4, (bsum((encw(BE, 4, MsgType) ++ encw(BE, 8, MsgSeqNum) ++ encw(BE, 4, (len(Wd(Body.tag, Body.mv)) % pow2(32))) ++ Wd(Body.tag, Body.mv)), (len(Wd(Body.tag, Body.mv)) + 16)) % pow2(8)))
//@     post MsgBodyLen == (len(Wd(Body.tag, Body.mv)) % pow2(32))
//@     post Checksum == (bsum((encw(BE, 4, MsgType) ++ encw(BE, 8, MsgSeqNum) ++ encw(BE, 4, (len(Wd(Body.tag, Body.mv)) % pow2(32))) ++ Wd(Body.tag, Body.mv)), (len(Wd(Body.tag, Body.mv)) + 16)) % pow2(8))
//@   path Body == nil
//@     seg encw(BE, 4, MsgType)
//@     seg encw(BE, 8, MsgSeqNum)
//@     seg encw(BE, 4, 0)
//@     seg encw(BE, 4, (bsum((encw(BE, 4, MsgType) ++ encw(BE, 8, MsgSeqNum) ++ encw(BE, 4, 0)), 16) % pow2(8)))
//@     post MsgBodyLen == 0
//@     post Checksum == (bsum((encw(BE, 4, MsgType) ++ encw(BE, 8, MsgSeqNum) ++ encw(BE, 4, 0)), 16) % pow2(8))

//@ layout SubExecRptSync [proto sse_bin_v0.57, BE]
//@   path always
//@     seg fixed(Pbu, 8, 32, R)
//@     seg encw(BE, 4, SetId)
//@     seg encw(BE, 8, BeginReportIndex)

//@ layout SubExecRptSyncRsp [proto sse_bin_v0.57, BE]
//@   path always
//@     seg fixed(Pbu, 8, 32, R)
//@     seg encw(BE, 4, SetId)
//@     seg encw(BE, 8, BeginReportIndex)
//@     seg encw(BE, 8, EndReportIndex)
//@     seg encw(BE, 4, RejReason)
//@     seg fixed(Text, 64, 32, R)
