//go:build verif

// Pinned wire layouts and discriminator tables of package sample_bin for the gocv verifier (/verif).
// Comments only. Each layout lists, per Encode path, the byte segments written (as contract
// expressions over the field names) and the fields the encoder writes back; it was produced by
// `gocv bootstrap` from the pinned tree and is from then on the specification the code is checked
// against (DESIGN.md 6.2). A byte-identical mirror is kept under /verif/contracts/mirror.

package sample_bin

//@ table rootPacketMsgTypeFactoryCache : int
//@   1->BasicPacket
//@   2->StringPacket
//@   3->NestedPacket
//@   4->EmptyPacket

//@ layout BasicPacket [proto sample, LE]
//@   path always
//@     seg encw(LE, 1, (FieldI8 % pow2(8)))
//@     seg encw(LE, 2, (FieldI16 % pow2(16)))
//@     seg encw(LE, 4, (FieldI32 % pow2(32)))
//@     seg encw(LE, 8, (FieldI64 % pow2(64)))
//@     seg fixed(FieldChar, 1, 48, L)
//@     seg encw(LE, 1, FieldU8)
//@     seg encw(LE, 2, FieldU16)
//@     seg encw(LE, 4, FieldU32)
//@     seg encw(LE, 8, FieldU64)
//@     seg encw(LE, 4, FieldF32)
//@     seg encw(LE, 8, FieldF64)
//@     seg encw(LE, 2, len(FieldI8List))
//@     seg flat(k_encs(LE, 1), FieldI8List, 0, len(FieldI8List))
//@     seg encw(LE, 2, len(FieldI16List))
//@     seg flat(k_encs(LE, 2), FieldI16List, 0, len(FieldI16List))
//@     seg encw(LE, 2, len(FieldI32List))
//@     seg flat(k_encs(LE, 4), FieldI32List, 0, len(FieldI32List))
//@     seg encw(LE, 2, len(FieldI64List))
//@     seg flat(k_encs(LE, 8), FieldI64List, 0, len(FieldI64List))
//@     seg encw(LE, 2, len(FieldCharList))
//@     seg flat(k_fix(1, 48, L), FieldCharList, 0, len(FieldCharList))
//@     seg encw(LE, 2, len(FieldU8List))
//@     seg flat(k_enc(LE, 1), FieldU8List, 0, len(FieldU8List))
//@     seg encw(LE, 2, len(FieldU16List))
//@     seg flat(k_enc(LE, 2), FieldU16List, 0, len(FieldU16List))
//@     seg encw(LE, 2, len(FieldU32List))
//@     seg flat(k_enc(LE, 4), FieldU32List, 0, len(FieldU32List))
//@     seg encw(LE, 2, len(FieldU64List))
//@     seg flat(k_enc(LE, 8), FieldU64List, 0, len(FieldU64List))
//@     seg encw(LE, 2, len(FieldF32List))
//@     seg flat(k_enc(LE, 4), FieldF32List, 0, len(FieldF32List))
//@     seg encw(LE, 2, len(FieldF64List))
//@     seg flat(k_enc(LE, 8), FieldF64List, 0, len(FieldF64List))

//@ layout EmptyPacket [proto sample, LE]
//@   path always

//@ layout InerPacket [proto sample, LE]
//@   path always
//@     seg encw(LE, 4, FieldU32)
//@     seg encw(LE, 2, len(FieldI16List))
//@     seg flat(k_encs(LE, 2), FieldI16List, 0, len(FieldI16List))

//@ layout NestedPacket [proto sample, LE]
//@   path InerPacket == nil && SubPacket == nil
//@     seg Wd(tag(SubPacket), zeromv(tag(SubPacket)))
//@     seg encw(LE, 2, len(SubPacketList))
//@     seg flat(k_obj(tag(SubPacket)), SubPacketList, 0, len(SubPacketList))
//@     seg Wd(tag(InerPacket), zeromv(tag(InerPacket)))
//@   path InerPacket != nil && SubPacket == nil
//@     seg Wd(tag(SubPacket), zeromv(tag(SubPacket)))
//@     seg encw(LE, 2, len(SubPacketList))
//@     seg flat(k_obj(tag(SubPacket)), SubPacketList, 0, len(SubPacketList))
//@     seg Wd(tag(InerPacket), InerPacket.mv)
//@   path InerPacket == nil && SubPacket != nil
//@     seg Wd(tag(SubPacket), SubPacket.mv)
//@     seg encw(LE, 2, len(SubPacketList))
//@     seg flat(k_obj(tag(SubPacket)), SubPacketList, 0, len(SubPacketList))
//@     seg Wd(tag(InerPacket), zeromv(tag(InerPacket)))
//@   path InerPacket != nil && SubPacket != nil
//@     seg Wd(tag(SubPacket), SubPacket.mv)
//@     seg encw(LE, 2, len(SubPacketList))
//@     seg flat(k_obj(tag(SubPacket)), SubPacketList, 0, len(SubPacketList))
//@     seg Wd(tag(InerPacket), InerPacket.mv)

//@ layout RiskControlRequest [proto sample_handwritten, BE]
//@   path always
//@     seg encw(BE, 2, len(UniqueOrderID))
//@     seg UniqueOrderID
//@     seg fixed(ClOrdID, 16, 32, R)
//@     seg fixed(MarketID, 3, 32, R)
//@     seg fixed(SecurityID, 12, 32, R)
//@     seg encw(BE, 1, Side)
//@     seg encw(BE, 1, OrderType)
//@     seg encw(BE, 8, Price)
//@     seg encw(BE, 4, Qty)
//@     seg encw(BE, 2, len(ExtraInfo))
//@     seg flat(k_pstr(BE, 2), ExtraInfo, 0, len(ExtraInfo))
//@     seg Wd(tag(SubOrder), SubOrder.mv)

//@ layout RootPacket [proto sample, LE, frame len=PayloadLen body=Payload cksum=Checksum alg=crc32]
//@   dyn Payload by MsgType in rootPacketMsgTypeFactoryCache
//@   path Payload != nil
//@     seg encw(LE, 2, MsgType)
//@     seg encw(LE, 4, (len(Wd(Payload.tag, Payload.mv)) % pow2(32)))
//@     seg Wd(Payload.tag, Payload.mv)
//@     seg encw(LE, 4, crc32_ieee((encw(LE, 2, MsgType) ++ encw(LE, 4, (len(Wd(Payload.tag, Payload.mv)) % pow2(32))) ++ Wd(Payload.tag, Payload.mv))))
//@     post PayloadLen == (len(Wd(Payload.tag, Payload.mv)) % pow2(32))
//@     post Checksum == crc32_ieee((encw(LE, 2, MsgType) ++ encw(LE, 4, (len(Wd(Payload.tag, Payload.mv)) % pow2(32))) ++ Wd(Payload.tag, Payload.mv)))
//@   path Payload == nil
//@     seg encw(LE, 2, MsgType)
//@     seg encw(LE, 4, 0)
//@     seg encw(LE, 4, crc32_ieee((encw(LE, 2, MsgType) ++ encw(LE, 4, 0))))
//@     post PayloadLen == 0
//@     post Checksum == crc32_ieee((encw(LE, 2, MsgType) ++ encw(LE, 4, 0)))

//@ layout StringPacket [proto sample, LE]
//@   path always
//@     seg encw(LE, 2, len(FieldDynamicString))
//@     seg FieldDynamicString
//@     seg encw(LE, 2, len(FieldDynamicString1))
//@     seg FieldDynamicString1
//@     seg fixed(FieldFixedString1, 1, 48, L)
//@     seg fixed(FieldFixedString10, 10, 48, L)
//@     seg fixed(FieldFixedString10Pad, 10, 32, L)
//@     seg fixed(FieldFixedString10PadWithNullTerminator, 10, 0, R)
//@     seg encw(LE, 2, len(FieldDynamicStringList))
//@     seg flat(k_pstr(LE, 2), FieldDynamicStringList, 0, len(FieldDynamicStringList))
//@     seg encw(LE, 2, len(FieldDynamicString1List))
//@     seg flat(k_pstr(LE, 2), FieldDynamicString1List, 0, len(FieldDynamicString1List))
//@     seg encw(LE, 2, len(FieldFixedString1List))
//@     seg flat(k_fix(1, 48, L), FieldFixedString1List, 0, len(FieldFixedString1List))
//@     seg encw(LE, 2, len(FieldFixedString10List))
//@     seg flat(k_fix(10, 48, L), FieldFixedString10List, 0, len(FieldFixedString10List))
//@     seg encw(LE, 2, len(FieldFixedString10ListPad))
//@     seg flat(k_fix(10, 48, R), FieldFixedString10ListPad, 0, len(FieldFixedString10ListPad))
//@     seg encw(LE, 2, len(FieldFixedString10PadWithNullTerminatorList))
//@     seg flat(k_fix(10, 0, R), FieldFixedString10PadWithNullTerminatorList, 0, len(FieldFixedString10PadWithNullTerminatorList))

//@ layout SubOrder [proto sample_handwritten, BE]
//@   path always
//@     seg fixed(ClOrdID, 16, 32, R)
//@     seg encw(BE, 8, Price)
//@     seg encw(BE, 4, Qty)

//@ layout SubPacket [proto sample, LE]
//@   path always
//@     seg encw(LE, 4, FieldU32)
//@     seg encw(LE, 2, len(FieldI16List))
//@     seg flat(k_encs(LE, 2), FieldI16List, 0, len(FieldI16List))
