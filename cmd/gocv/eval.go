package main

// Evaluation of contract expressions into spec terms over a symbolic state.

import (
	"fmt"
	"go/types"
	"math/big"
	"strings"
)

type evaluator struct {
	x       *Exec
	st      *State // current state
	old     *State // state at function entry (for old())
	entry   *State // state at loop entry (for \entry())
	names   map[string]Value
	extra   map[string]Value // loop-carried variables
	terms   map[string]*Term // ghosts, bound variables
	results []Value
	sigma   Subst
	tnames  map[string]types.Type // type parameter names
	holes   map[string]string
}

func (x *Exec) evaluator(st *State) *evaluator {
	ev := &evaluator{x: x, st: st, old: x.old, names: x.names, terms: map[string]*Term{}, sigma: x.sigma, holes: x.holes}
	for k, v := range x.ghosts {
		ev.terms[k] = v
	}
	ev.tnames = x.typeNames()
	return ev
}

func (x *Exec) typeNames() map[string]types.Type {
	m := map[string]types.Type{}
	for k, v := range x.sigma {
		m[k.Obj().Name()] = v
	}
	if x.fn != nil && x.fn.TypeParams() != nil {
		tp := x.fn.TypeParams()
		for i := 0; i < tp.Len(); i++ {
			if _, ok := m[tp.At(i).Obj().Name()]; !ok {
				m[tp.At(i).Obj().Name()] = tp.At(i)
			}
		}
	}
	return m
}

var specSorts = map[string]Sort{
	"Wd": SSeq, "flat": SSeq, "elem": SSeq, "sunbox": SSeq, "empty": SSeq, "cat": SSeq, "unit": SSeq,
	"bytes": SBool, "canond": SBool, "encok": SBool, "mdom": SBool, "isbyte": SBool, "elemnil": SBool,
	"allcanonfix": SBool, "hint": SBool, "hints": SBool,
}

func (ev *evaluator) err(f string, a ...interface{}) error { return fmt.Errorf(f, a...) }

func (ev *evaluator) boolTerm(e *Expr) (*Term, error) {
	t, err := ev.term(e)
	if err != nil {
		return nil, err
	}
	if t.Sort != SBool {
		return nil, ev.err("expected a boolean: %s", e)
	}
	return t, nil
}

func (ev *evaluator) intTerm(e *Expr) (*Term, error) {
	t, err := ev.term(e)
	if err != nil {
		return nil, err
	}
	if t.Sort != SInt {
		return nil, ev.err("expected an integer: %s", e)
	}
	return t, nil
}

func (ev *evaluator) typeArg(e *Expr) (TypeInfo, error) {
	if e.Kind != "ident" {
		return TypeInfo{}, ev.err("expected a type name, got %s", e)
	}
	if t, ok := ev.tnames[e.Name]; ok {
		if ti, ok := basicInfo(ev.x.resolve(t)); ok {
			return ti, nil
		}
		return TypeInfo{}, ev.err("type parameter %s is not instantiated with a basic type", e.Name)
	}
	for _, bt := range types.Typ {
		if bt.Name() == e.Name {
			if ti, ok := basicInfo(bt); ok {
				return ti, nil
			}
		}
	}
	if e.Name == "byte" {
		return TypeInfo{"uint", 1, false}, nil
	}
	return TypeInfo{}, ev.err("unknown type %s", e.Name)
}

func (ev *evaluator) order(e *Expr) (*Term, error) {
	if e.Kind == "ident" {
		switch e.Name {
		case "BE":
			return IntC(0), nil
		case "LE":
			return IntC(1), nil
		}
		if v, ok := ev.holes[e.Name]; ok {
			if v == "LE" {
				return IntC(1), nil
			}
			return IntC(0), nil
		}
	}
	return ev.intTerm(e)
}

// value evaluates an expression that denotes a Go value (pointer, slice, buffer ...) rather than a term.
func (ev *evaluator) value(e *Expr) (Value, *State, error) {
	switch e.Kind {
	case "ident":
		if v, ok := ev.extra[e.Name]; ok {
			return v, ev.st, nil
		}
		if v, ok := ev.st.lenv[e.Name]; ok && ev.extra == nil && !ev.x.isCallee {
			return v, ev.st, nil
		}
		if v, ok := ev.names[e.Name]; ok {
			return v, ev.st, nil
		}
		switch e.Name {
		case "err":
			for i := len(ev.results) - 1; i >= 0; i-- {
				if r, ok := ev.results[i].(VErr); ok {
					return r, ev.st, nil
				}
			}
		case "\\result":
			if len(ev.results) > 0 {
				return ev.results[0], ev.st, nil
			}
		}
		if v, ok := ev.st.locals[e.Name]; ok && !ev.x.isCallee {
			return v, ev.st, nil
		}
		return nil, nil, ev.err("unknown name %s", e.Name)
	case "field":
		if e.Args[0].Kind == "ident" && e.Args[0].Name == "\\result" {
			var i int
			if _, err := fmt.Sscanf(e.Name, "%d", &i); err == nil && i < len(ev.results) {
				return ev.results[i], ev.st, nil
			}
		}
		base, st, err := ev.value(e.Args[0])
		if err != nil {
			return nil, nil, err
		}
		if p, ok := base.(VPtr); ok && p.Obj != nil {
			switch p.Obj.Kind {
			case "buffer":
				if e.Name == "u" {
					return VStr{st.get(p.Obj).Seq}, st, nil
				}
			case "dyn":
				switch e.Name {
				case "mv":
					return VInt{st.get(p.Obj).MV}, st, nil
				case "tag":
					return VInt{st.get(p.Obj).Tag}, st, nil
				}
			case "struct":
				stt := p.Obj.Type.Underlying().(*types.Struct)
				for i := 0; i < stt.NumFields(); i++ {
					if stt.Field(i).Name() == e.Name {
						fp := ev.x.fieldPtr(st, p.Obj, i)
						if _, isField := fp.(VFieldPtr); isField {
							return ev.x.load(st, fp, nil, stt.Field(i).Type()), st, nil
						}
						return fp, st, nil
					}
				}
			}
		}
		if i, ok := base.(VIface); ok && i.Obj != nil {
			switch e.Name {
			case "mv":
				return VInt{st.get(i.Obj).MV}, st, nil
			case "tag":
				return VInt{st.get(i.Obj).Tag}, st, nil
			}
		}
		return nil, nil, ev.err("cannot select .%s", e.Name)
	case "old":
		if ev.old == nil {
			return nil, nil, ev.err("old() outside a post-state")
		}
		sub := *ev
		sub.st = ev.old
		return sub.value(e.Args[0])
	case "entry":
		if ev.entry == nil {
			return nil, nil, ev.err("\\entry() outside a loop")
		}
		sub := *ev
		sub.st = ev.entry
		return sub.value(e.Args[0])
	}
	return nil, nil, ev.err("not a value expression: %s", e)
}

func (ev *evaluator) valueTerm(v Value, st *State) (*Term, error) {
	switch v := v.(type) {
	case VInt:
		return v.T, nil
	case VBool:
		return v.T, nil
	case VStr:
		return v.T, nil
	case VSlice:
		return ev.x.sliceContent(st, v), nil
	case VOpaque:
		if v.T != nil {
			return v.T, nil
		}
	}
	return nil, ev.err("value of kind %T has no term", v)
}

func (ev *evaluator) term(e *Expr) (*Term, error) {
	switch e.Kind {
	case "num":
		return BigC(e.Num), nil
	case "str":
		return strConst(e.Name), nil
	case "ident":
		if t, ok := ev.terms[e.Name]; ok {
			return t, nil
		}
		switch e.Name {
		case "true", "\\nopanic":
			return True, nil
		case "false":
			return False, nil
		case "BE", "R":
			return IntC(0), nil
		case "LE", "L":
			return IntC(1), nil
		case "ε", "empty":
			return Empty, nil
		case "alloc":
			return ev.st.alloc, nil
		}
		if v, ok := ev.holes[e.Name]; ok {
			return map[string]*Term{"BE": IntC(0), "LE": IntC(1), "R": IntC(0), "L": IntC(1)}[v], nil
		}
		v, st, err := ev.value(e)
		if err != nil {
			return nil, err
		}
		return ev.valueTerm(v, st)
	case "field", "old", "entry":
		if e.Kind != "field" {
			// old(<term expr>) in general: evaluate the inner expression in the other state
			sub := *ev
			if e.Kind == "old" {
				if ev.old == nil {
					return nil, ev.err("old() without pre-state")
				}
				sub.st = ev.old
			} else {
				if ev.entry == nil {
					return nil, ev.err("\\entry() outside loop")
				}
				sub.st = ev.entry
			}
			return sub.term(e.Args[0])
		}
		v, st, err := ev.value(e)
		if err != nil {
			return nil, err
		}
		return ev.valueTerm(v, st)
	case "index":
		s, err := ev.term(e.Args[0])
		if err != nil {
			return nil, err
		}
		i, err := ev.intTerm(e.Args[1])
		if err != nil {
			return nil, err
		}
		return At(s, i), nil
	case "slice":
		s, err := ev.term(e.Args[0])
		if err != nil {
			return nil, err
		}
		lo, hi := IntC(0), Len(s)
		if e.Args[1] != nil {
			if lo, err = ev.intTerm(e.Args[1]); err != nil {
				return nil, err
			}
		}
		if e.Args[2] != nil {
			if hi, err = ev.intTerm(e.Args[2]); err != nil {
				return nil, err
			}
		}
		return SliceT(s, lo, hi), nil
	case "un":
		a, err := ev.term(e.Args[0])
		if err != nil {
			return nil, err
		}
		if e.Name == "!" {
			return Not(a), nil
		}
		return Sub(IntC(0), a), nil
	case "bin":
		return ev.binary(e)
	case "forall", "exists":
		lo, err := ev.intTerm(e.Args[0])
		if err != nil {
			return nil, err
		}
		hi, err := ev.intTerm(e.Args[1])
		if err != nil {
			return nil, err
		}
		bv := Var(e.Name+"!q", SInt)
		sub := *ev
		sub.terms = map[string]*Term{}
		for k, v := range ev.terms {
			sub.terms[k] = v
		}
		sub.terms[e.Name] = bv
		body, err := sub.boolTerm(e.Args[2])
		if err != nil {
			return nil, err
		}
		pats := findPatterns(body, bv)
		rng := And(Le(lo, bv), Lt(bv, hi))
		if e.Kind == "forall" {
			return Forall([]*Term{bv}, Implies(rng, body), pats...), nil
		}
		return Not(Forall([]*Term{bv}, Not(And(rng, body)), pats...)), nil
	case "call":
		return ev.call(e)
	}
	return nil, ev.err("cannot evaluate %s", e)
}

// findPatterns picks at(_, j)-style subterms mentioning the bound variable as E-matching triggers.
func findPatterns(body, bv *Term) []*Term {
	var out []*Term
	seen := map[string]bool{}
	var walk func(t *Term)
	mentions := func(t *Term) bool {
		fv := map[string]*Term{}
		FreeVars(t, fv)
		_, ok := fv[bv.Name]
		return ok
	}
	var walkf func(t *Term)
	walkf = func(t *Term) {
		if t.Op == "app" && (t.Name == "at" || t.Name == "mdom" || t.Name == "mval") && mentions(t) && !hasIte(t) {
			if !seen[t.Key()] {
				seen[t.Key()] = true
				out = append(out, t)
			}
			return
		}
		for _, a := range t.Args {
			walkf(a)
		}
	}
	walk = walkf
	walk(body)
	if len(out) > 1 {
		out = out[:1]
	}
	return out
}

func hasIte(t *Term) bool {
	switch t.Op {
	case "ite", "and", "or", "not", "=>", "=", "<", "<=", "forall", "exists":
		return true
	}
	for _, a := range t.Args {
		if hasIte(a) {
			return true
		}
	}
	return false
}

func (ev *evaluator) binary(e *Expr) (*Term, error) {
	op := e.Name
	// comparisons against nil
	if op == "==" || op == "!=" {
		for i := 0; i < 2; i++ {
			if e.Args[i].Kind == "ident" && e.Args[i].Name == "nil" {
				v, _, err := ev.value(e.Args[1-i])
				if err != nil {
					return nil, err
				}
				t := ev.x.isNilTerm(v)
				if t == nil {
					return nil, ev.err("cannot compare %s with nil", e.Args[1-i])
				}
				if op == "!=" {
					t = Not(t)
				}
				return t, nil
			}
		}
	}
	a, err := ev.term(e.Args[0])
	if err != nil {
		return nil, err
	}
	b, err := ev.term(e.Args[1])
	if err != nil {
		return nil, err
	}
	switch op {
	case "&&":
		return And(a, b), nil
	case "||":
		return Or(a, b), nil
	case "==>":
		return Implies(a, b), nil
	case "==":
		if a.Sort != b.Sort {
			return nil, ev.err("sort mismatch in %s", e)
		}
		return Eq(a, b), nil
	case "!=":
		if a.Sort != b.Sort {
			return nil, ev.err("sort mismatch in %s", e)
		}
		return Neq(a, b), nil
	case "<":
		return Lt(a, b), nil
	case "<=":
		return Le(a, b), nil
	case ">":
		return Gt(a, b), nil
	case ">=":
		return Ge(a, b), nil
	case "+":
		return Add(a, b), nil
	case "-":
		return Sub(a, b), nil
	case "*":
		return Mul(a, b), nil
	case "/":
		return Div(a, b), nil
	case "%":
		return Mod(a, b), nil
	case "++":
		if a.Sort != SSeq || b.Sort != SSeq {
			return nil, ev.err("++ needs sequences in %s", e)
		}
		return Cat(a, b), nil
	}
	return nil, ev.err("unknown operator %s", op)
}

func (ev *evaluator) args(e *Expr) ([]*Term, error) {
	var out []*Term
	for _, a := range e.Args {
		t, err := ev.term(a)
		if err != nil {
			return nil, err
		}
		out = append(out, t)
	}
	return out, nil
}

func (ev *evaluator) call(e *Expr) (*Term, error) {
	n := len(e.Args)
	need := func(k int) error {
		if n != k {
			return ev.err("%s expects %d arguments", e.Name, k)
		}
		return nil
	}
	switch e.Name {
	case "len":
		if err := need(1); err != nil {
			return nil, err
		}
		if v, _, err := ev.value(e.Args[0]); err == nil {
			if sl, ok := v.(VSlice); ok {
				return sliceLen(sl), nil
			}
		}
		s, err := ev.term(e.Args[0])
		if err != nil {
			return nil, err
		}
		if s.Sort != SSeq {
			return nil, ev.err("len of non-sequence %s", e.Args[0])
		}
		return Len(s), nil
	case "cap":
		v, _, err := ev.value(e.Args[0])
		if err != nil {
			return nil, err
		}
		if sl, ok := v.(VSlice); ok {
			return sl.Cap, nil
		}
		return nil, ev.err("cap of non-slice")
	case "boundedcap":
		a, err := ev.args(e)
		if err != nil {
			return nil, err
		}
		return Ite(Lt(a[0], IntC(0)), IntC(0), Ite(Gt(a[0], a[1]), a[1], a[0])), nil
	case "width", "max", "maxval", "minval":
		ti, err := ev.typeArg(e.Args[0])
		if err != nil {
			return nil, err
		}
		switch e.Name {
		case "width":
			return IntC(int64(ti.Width)), nil
		case "minval":
			return ti.min(), nil
		}
		if e.Name == "max" && ti.Width == 8 && !ti.Signed {
			// the largest count or length representable both in a uint64 prefix and in Go's int
			return BigC(new(big.Int).Sub(new(big.Int).Lsh(big.NewInt(1), 63), big.NewInt(1))), nil
		}
		return ti.max(), nil
	case "enc": // enc(order, Type, value)
		if err := need(3); err != nil {
			return nil, err
		}
		o, err := ev.order(e.Args[0])
		if err != nil {
			return nil, err
		}
		ti, err := ev.typeArg(e.Args[1])
		if err != nil {
			return nil, err
		}
		v, err := ev.intTerm(e.Args[2])
		if err != nil {
			return nil, err
		}
		return App("enc", SSeq, o, IntC(int64(ti.Width)), ubits(ti, v)), nil
	case "dec": // dec(order, Type, bytes) -> value of Type
		if err := need(3); err != nil {
			return nil, err
		}
		o, err := ev.order(e.Args[0])
		if err != nil {
			return nil, err
		}
		ti, err := ev.typeArg(e.Args[1])
		if err != nil {
			return nil, err
		}
		s, err := ev.term(e.Args[2])
		if err != nil {
			return nil, err
		}
		return fromBits(ti, App("dec", SInt, o, IntC(int64(ti.Width)), s)), nil
	case "inrange": // inrange(Type, v)
		ti, err := ev.typeArg(e.Args[0])
		if err != nil {
			return nil, err
		}
		v, err := ev.intTerm(e.Args[1])
		if err != nil {
			return nil, err
		}
		return inRange(ti, v), nil
	case "kenc": // kenc(order, Type): element kind of scalar lists
		o, err := ev.order(e.Args[0])
		if err != nil {
			return nil, err
		}
		ti, err := ev.typeArg(e.Args[1])
		if err != nil {
			return nil, err
		}
		return kindEnc(o, ti), nil
	case "kpstr":
		o, err := ev.order(e.Args[0])
		if err != nil {
			return nil, err
		}
		ti, err := ev.typeArg(e.Args[1])
		if err != nil {
			return nil, err
		}
		return App("k_pstr", SInt, o, IntC(int64(ti.Width))), nil
	case "kfix", "k_fix":
		a, err := ev.args(e)
		if err != nil {
			return nil, err
		}
		return App("k_fix", SInt, a...), nil
	case "kobj":
		if e.Args[0].Kind == "ident" {
			if t, ok := ev.tnames[e.Args[0].Name]; ok {
				return App("k_obj", SInt, ev.x.tagOfType(t)), nil
			}
		}
		a, err := ev.args(e)
		if err != nil {
			return nil, err
		}
		return App("k_obj", SInt, a...), nil
	case "tagof":
		if e.Args[0].Kind == "ident" {
			if t, ok := ev.tnames[e.Args[0].Name]; ok {
				return ev.x.tagOfType(t), nil
			}
		}
		return nil, ev.err("tagof needs a type parameter")
	case "fixed", "take", "drop", "rep", "flat", "Wd", "sunbox", "sbox", "at", "unit", "elem":
		a, err := ev.args(e)
		if err != nil {
			return nil, err
		}
		switch e.Name {
		case "take":
			return Take(a[0], a[1]), nil
		case "drop":
			return Drop(a[0], a[1]), nil
		case "rep":
			return Rep(a[0], a[1]), nil
		case "sbox", "at":
			return App(e.Name, SInt, a...), nil
		}
		return App(e.Name, SSeq, a...), nil
	case "min":
		a, err := ev.args(e)
		if err != nil {
			return nil, err
		}
		return Ite(Le(a[0], a[1]), a[0], a[1]), nil
	case "ite":
		a, err := ev.args(e)
		if err != nil {
			return nil, err
		}
		return Ite(a[0], a[1], a[2]), nil
	case "encw": // encw(order, width, bits): raw form used by pinned layouts
		o, err := ev.order(e.Args[0])
		if err != nil {
			return nil, err
		}
		w, err := ev.intTerm(e.Args[1])
		if err != nil {
			return nil, err
		}
		v, err := ev.intTerm(e.Args[2])
		if err != nil {
			return nil, err
		}
		return App("enc", SSeq, o, w, v), nil
	case "pow2":
		if e.Args[0].Kind == "num" {
			return Pow2(int(e.Args[0].Num.Int64())), nil
		}
		return nil, ev.err("pow2 needs a literal")
	case "k_enc", "k_encs", "k_pstr":
		o, err := ev.order(e.Args[0])
		if err != nil {
			return nil, err
		}
		w, err := ev.intTerm(e.Args[1])
		if err != nil {
			return nil, err
		}
		return App(e.Name, SInt, o, w), nil
	case "tag":
		if e.Args[0].Kind == "ident" && ev.x.pkgForTags != nil {
			return App("tag_"+ev.x.pkgForTags.Pkg.Name()+"."+e.Args[0].Name, SInt), nil
		}
		return nil, ev.err("tag() needs a type name")
	case "tbl", "tbldom":
		if e.Args[0].Kind != "ident" || ev.x.pkgForTags == nil {
			return nil, ev.err("tbl() needs a table name")
		}
		ti := ev.x.V.tables[ev.x.pkgForTags.Pkg.Path()+"."+e.Args[0].Name]
		if ti == nil {
			return nil, ev.err("unknown table %s", e.Args[0].Name)
		}
		k, err := ev.term(e.Args[1])
		if err != nil {
			return nil, err
		}
		dom, tag, ok := ev.x.V.tableTerms(ti, k)
		if !ok {
			return nil, ev.err("table %s not available", e.Args[0].Name)
		}
		if e.Name == "tbldom" {
			return dom, nil
		}
		return tag, nil
	case "objper": // objper(K): per-element allocation allowance of a list of message parts of type K
		if e.Args[0].Kind == "ident" {
			if t, ok := ev.tnames[e.Args[0].Name]; ok {
				a, b := ev.x.V.allocConstsOfTag(ev.x.tagOfType(t))
				return IntC(a + b + 384), nil
			}
		}
		return nil, ev.err("objper needs a type parameter")
	case "minwidth":
		a, err := ev.args(e)
		if err != nil {
			return nil, err
		}
		return ev.x.V.minWidthTerm(a[0]), nil
	case "extends", "suffixof": // extends(new, old): new = old ++ something;  suffixof(new, old): old = something ++ new
		a, err := ev.args(e)
		if err != nil {
			return nil, err
		}
		return App(e.Name, SBool, a[0], a[1]), nil
	case "byteof": // byte(rune): truncation to 8 bits
		a, err := ev.args(e)
		if err != nil {
			return nil, err
		}
		return Mod(a[0], IntC(256)), nil
	case "side": // side(padLeft) : 1 when padding on the left
		a, err := ev.args(e)
		if err != nil {
			return nil, err
		}
		return Ite(a[0], IntC(1), IntC(0)), nil
	}
	a, err := ev.args(e)
	if err != nil {
		return nil, err
	}
	s, ok := specSorts[e.Name]
	if !ok {
		switch {
		case strings.HasPrefix(e.Name, "is"), strings.HasPrefix(e.Name, "canon"), strings.HasPrefix(e.Name, "all"):
			s = SBool
		case strings.HasPrefix(e.Name, "seq_"):
			s = SSeq
		default:
			s = SInt
		}
	}
	return App(e.Name, s, a...), nil
}

// kindEnc is the element kind of a list of scalars of type ti written in byte order o.
func kindEnc(o *Term, ti TypeInfo) *Term {
	if ti.Signed {
		return App("k_encs", SInt, o, IntC(int64(ti.Width)))
	}
	return App("k_enc", SInt, o, IntC(int64(ti.Width)))
}
