package main

// aux.go: whole-package accounting. Every function of the repository's packages is one of
//   (a) under contract (codec functions, Encode / Decode of message types),
//   (b) a discriminator-table function (look-up verified by VerifyTableFuncs, registration checked here for
//       its exact shape  table[key] = factory),
//   (c) an init function (executed by ExtractTables) — plus the package initialiser, checked here to start every
//       table empty,
//   (d) a helper statically called from an accounted function (it is executed in place wherever its caller is
//       verified),
//   (e) anything else — constructors New…(), String(), Algorithm(), Error() of a new type, …: these have no
//       contract and no verified caller, so they must be PURE: no store outside their own fresh allocations, no
//       write to package-level state, no call that could do either. Constructors must in addition not read any
//       package-level variable (so what they return is built from fresh allocations and constants only) and
//       must not return lists with nil slots.
// The analysis is a conservative walk over the SSA form; it never uses contracts.

import (
	"fmt"
	"go/ast"
	"go/constant"
	"go/token"
	"go/types"
	"os"
	"path/filepath"
	"sort"
	"strings"

	"golang.org/x/tools/go/ssa"
)

var purePackages = map[string]bool{
	"fmt": true, "strconv": true, "strings": true, "unicode": true, "unicode/utf8": true, "math": true, "math/bits": true, "errors": true,
}

// pureMethods of standard types that only touch their receiver (acceptable when the receiver is a local).
var localOnlyTypes = map[string]bool{"strings.Builder": true, "bytes.Buffer": true}

type purity struct {
	V       *Verifier
	memo    map[*ssa.Function]string
	ctor    bool
	visited map[*ssa.Function]bool
	// ownRecv: the top-level function is a method that nothing calls implicitly (not String / Error / Format /
	// Algorithm / a marshaller ...): it may modify what its own receiver reaches — only a caller who asks for it gets it
	ownRecv *ssa.Function
}

// implicitMethods are called by the runtime or the standard library without the user writing the call.
var implicitMethods = map[string]bool{"String": true, "Error": true, "GoString": true, "Format": true, "Algorithm": true, "Unwrap": true, "Is": true, "As": true,
	"MarshalJSON": true, "UnmarshalJSON": true, "MarshalText": true, "UnmarshalText": true, "MarshalBinary": true, "UnmarshalBinary": true,
	"Write": true, "Read": true, "WriteTo": true, "ReadFrom": true, "Len": true, "Less": true, "Swap": true, "Scan": true, "Close": true}

// recvRoot: the address lies in memory reached from the receiver of fn.
func recvRoot(fn *ssa.Function, v ssa.Value) bool {
	if fn == nil || fn.Signature.Recv() == nil || len(fn.Params) == 0 {
		return false
	}
	for i := 0; i < 32; i++ {
		switch a := v.(type) {
		case *ssa.Parameter:
			return a == fn.Params[0]
		case *ssa.FieldAddr:
			v = a.X
		case *ssa.IndexAddr:
			v = a.X
		case *ssa.Slice:
			v = a.X
		case *ssa.UnOp:
			v = a.X
		default:
			return false
		}
	}
	return false
}

// localRoot follows an address back to what it points into; ok means a fresh allocation of this function.
func localRoot(v ssa.Value) bool {
	for i := 0; i < 32; i++ {
		switch a := v.(type) {
		case *ssa.Alloc:
			return true
		case *ssa.FieldAddr:
			v = a.X
		case *ssa.IndexAddr:
			v = a.X
		case *ssa.Slice:
			v = a.X
		case *ssa.MakeSlice, *ssa.MakeMap:
			return true
		case *ssa.Phi:
			for _, e := range a.Edges {
				if !localRoot(e) {
					return false
				}
			}
			return true
		case *ssa.Convert:
			v = a.X // []byte(s): a fresh slice; string(b): immutable
			if _, isStr := a.X.Type().Underlying().(*types.Basic); isStr {
				return true
			}
		case *ssa.ChangeType:
			v = a.X
		case *ssa.Call:
			// results of fmt / strings / strconv / append-on-local are fresh
			if b, ok := a.Call.Value.(*ssa.Builtin); ok && b.Name() == "append" && len(a.Call.Args) > 0 {
				v = a.Call.Args[0]
				continue
			}
			if f := a.Call.StaticCallee(); f != nil && f.Pkg != nil && purePackages[f.Pkg.Pkg.Path()] {
				return true
			}
			return false
		case *ssa.Const:
			return true // nil
		default:
			return false
		}
	}
	return false
}

func isRefType(t types.Type) bool {
	switch t.Underlying().(type) {
	case *types.Pointer, *types.Slice, *types.Map, *types.Chan, *types.Signature, *types.Interface:
		return true
	case *types.Struct, *types.Array:
		return true // may contain references
	}
	return false
}

// impure returns "" if fn is pure in the sense above, else a reason.
func (p *purity) impure(fn *ssa.Function, depth int) string {
	if r, ok := p.memo[fn]; ok {
		return r
	}
	if fn.Blocks == nil {
		return "no body (external or assembly)"
	}
	if depth > 6 || p.visited[fn] {
		return "" // recursion: judged by the other frames
	}
	p.visited[fn] = true
	defer delete(p.visited, fn)
	res := func() string {
		for _, b := range fn.Blocks {
			for _, in := range b.Instrs {
				switch in := in.(type) {
				case *ssa.Store:
					if _, isG := in.Addr.(*ssa.Global); isG {
						return "writes the package-level variable " + in.Addr.Name()
					}
					if !localRoot(in.Addr) && !(fn == p.ownRecv && recvRoot(fn, in.Addr)) {
						return fmt.Sprintf("stores through %s, which is not a fresh allocation of this function", in.Addr.Name())
					}
				case *ssa.MapUpdate:
					if !localRoot(in.Map) {
						return "updates a map that is not local"
					}
				case *ssa.Go, *ssa.Defer, *ssa.Send, *ssa.Select, *ssa.MakeChan, *ssa.RunDefers:
					return fmt.Sprintf("uses %T", in)
				case *ssa.UnOp:
					if g, ok := in.X.(*ssa.Global); ok && p.ctor {
						return "a constructor reads the package-level variable " + g.Name() + " (its result would not be built from fresh allocations only)"
					}
				case *ssa.Alloc:
					// make([]*T, n) with a constant n is an array allocation followed by a slice expression
					if at, ok := in.Type().(*types.Pointer).Elem().Underlying().(*types.Array); ok && p.ctor && at.Len() > 0 {
						switch at.Elem().Underlying().(type) {
						case *types.Pointer, *types.Interface:
							return "a constructor makes a list with nil slots"
						}
					}
				case *ssa.MakeSlice:
					if p.ctor {
						if c, ok := in.Len.(*ssa.Const); !ok || c.Value == nil || constant.Sign(c.Value) != 0 {
							if isRefType(in.Type().Underlying().(*types.Slice).Elem()) {
								return "a constructor makes a list with nil slots"
							}
						}
					}
				case ssa.CallInstruction:
					cc := in.Common()
					if b, ok := cc.Value.(*ssa.Builtin); ok {
						switch b.Name() {
						case "len", "cap", "min", "max", "real", "imag", "complex", "new", "make", "print", "println", "panic", "recover":
						case "append":
							if !localRoot(cc.Args[0]) {
								if c, isC := cc.Args[0].(*ssa.Const); !isC || c.Value != nil {
									return "appends to a slice that is not local (may write into its spare capacity)"
								}
							}
						case "copy", "clear":
							if !localRoot(cc.Args[0]) {
								return b.Name() + " into memory that is not local"
							}
						case "delete":
							if !localRoot(cc.Args[0]) {
								return "deletes from a map that is not local"
							}
						default:
							return "built-in " + b.Name()
						}
						continue
					}
					callee := cc.StaticCallee()
					if cc.IsInvoke() || callee == nil {
						// dynamic call: acceptable only if no reference to non-local memory is handed over
						args := cc.Args
						if cc.IsInvoke() {
							m := cc.Method.Name()
							if (m == "Error" || m == "String" || m == "Algorithm") && len(args) == 0 {
								continue
							}
							return "calls the interface method " + m
						}
						return "calls a function value"
					}
					if callee.Pkg != nil && p.V.inRepo(callee.Pkg.Pkg.Path()) {
						if r := p.impure(callee, depth+1); r != "" {
							return "calls " + callee.Name() + ", which " + r
						}
						continue
					}
					path := ""
					if callee.Pkg != nil {
						path = callee.Pkg.Pkg.Path()
					}
					if purePackages[path] {
						continue
					}
					// methods of strings.Builder / bytes.Buffer on a local receiver
					if recv := callee.Signature.Recv(); recv != nil && len(cc.Args) > 0 {
						tn := strings.TrimPrefix(recv.Type().String(), "*")
						if localOnlyTypes[tn] && localRoot(cc.Args[0]) {
							continue
						}
					}
					// any other library call: fine if it receives nothing it could write through
					hands := false
					for _, a := range cc.Args {
						if _, isC := a.(*ssa.Const); isC {
							continue
						}
						if isRefType(a.Type()) {
							if _, isStr := a.Type().Underlying().(*types.Basic); !isStr && !localRoot(a) {
								hands = true
							}
						}
					}
					if hands {
						return "hands non-local memory to " + callee.String()
					}
				}
			}
		}
		return ""
	}()
	p.memo[fn] = res
	return res
}

// allFunctions lists the functions and methods declared in a repository package (no synthetic wrappers).
func (V *Verifier) allFunctions(pkgPath string) []*ssa.Function {
	p := V.pkgs[pkgPath]
	seen := map[*ssa.Function]bool{}
	var out []*ssa.Function
	add := func(f *ssa.Function) {
		if f == nil || seen[f] || f.Synthetic != "" && !strings.HasPrefix(f.Name(), "init") {
			return
		}
		seen[f] = true
		out = append(out, f)
	}
	for _, m := range p.Members {
		switch m := m.(type) {
		case *ssa.Function:
			add(m)
		case *ssa.Type:
			for _, t := range []types.Type{m.Type(), types.NewPointer(m.Type())} {
				ms := V.prog.MethodSets.MethodSet(t)
				for i := 0; i < ms.Len(); i++ {
					if f := V.prog.MethodValue(ms.At(i)); f != nil && f.Pkg == p && f.Synthetic == "" {
						add(f)
					}
				}
			}
		}
	}
	sort.Slice(out, func(i, j int) bool { return out[i].String() < out[j].String() })
	return out
}

// AuxCheck performs the accounting for one package.
func (V *Verifier) AuxCheck(pkgPath string, props []string) []*Obligation {
	p := V.pkgs[pkgPath]
	if p == nil {
		return nil
	}
	pkgName := p.Pkg.Name()
	var out []*Obligation
	cf := V.files[pkgPath]
	fns := V.allFunctions(pkgPath)
	accounted := map[*ssa.Function]string{}
	isTableFn := map[string]*TableInfo{}
	for _, name := range V.sortedTableNames(pkgPath) {
		ti := V.tables[name]
		isTableFn[ti.Factory] = ti
		isTableFn[ti.Registry] = ti
	}
	for _, f := range fns {
		name := f.Name()
		recv := f.Signature.Recv()
		switch {
		case strings.HasPrefix(name, "init"):
			accounted[f] = "init"
		case recv == nil && cf != nil && cf.Funcs[name] != nil:
			accounted[f] = "contract"
		case recv != nil && cf != nil && cf.Funcs["("+strings.TrimPrefix(recv.Type().String(), pkgPath+".")+")."+name] != nil:
			accounted[f] = "contract"
		case recv != nil && (name == "Encode" || name == "Decode") && hasCodecMethods(recv.Type()):
			accounted[f] = "message"
		case recv == nil && isTableFn[name] != nil:
			accounted[f] = "table"
		case recv == nil && strings.HasSuffix(pkgPath, "/codec") && (name == "Registry" || name == "Get" || name == "Remove" || name == "Clear"):
			accounted[f] = "registry (native specification, frames.go)"
		}
	}
	// contracts of methods are keyed "(*T).M" in the codec contract file
	if cf != nil {
		for _, f := range fns {
			if accounted[f] != "" || f.Signature.Recv() == nil {
				continue
			}
			rt := f.Signature.Recv().Type().String()
			rt = strings.Replace(rt, pkgPath+".", "", 1)
			if cf.Funcs["("+rt+")."+f.Name()] != nil {
				accounted[f] = "contract"
			}
		}
	}
	// (d) helpers statically called from accounted functions (transitively) are executed in place
	for changed := true; changed; {
		changed = false
		for _, f := range fns {
			if accounted[f] == "" {
				continue
			}
			var walk func(g *ssa.Function)
			walk = func(g *ssa.Function) {
				for _, b := range g.Blocks {
					for _, in := range b.Instrs {
						if ci, ok := in.(ssa.CallInstruction); ok {
							if c := ci.Common().StaticCallee(); c != nil && c.Pkg == p && accounted[c] == "" {
								accounted[c] = "helper of " + f.Name()
								changed = true
							}
						}
						if mc, ok := in.(*ssa.MakeClosure); ok {
							if c, ok := mc.Fn.(*ssa.Function); ok && accounted[c] == "" {
								accounted[c] = "closure of " + f.Name()
								changed = true
								walk(c)
							}
						}
					}
				}
			}
			walk(f)
		}
	}
	// (b) registration functions have exactly the shape  table[key] = factory
	for name, ti := range isTableFn {
		if name != ti.Registry || name == "" {
			continue
		}
		f := p.Func(name)
		g, _ := p.Members[ti.Var].(*ssa.Global)
		ok := f != nil && g != nil && len(f.Params) == 2 && len(f.Blocks) == 1
		if ok {
			updates := 0
			for _, in := range f.Blocks[0].Instrs {
				switch in := in.(type) {
				case *ssa.DebugRef, *ssa.Return:
				case *ssa.UnOp:
					if in.X != ssa.Value(g) {
						ok = false
					}
				case *ssa.MapUpdate:
					l, isLoad := in.Map.(*ssa.UnOp)
					if !isLoad || l.X != ssa.Value(g) || in.Key != ssa.Value(f.Params[0]) || in.Value != ssa.Value(f.Params[1]) {
						ok = false
					}
					updates++
				default:
					ok = false
				}
			}
			ok = ok && updates == 1
		}
		out = append(out, mkOb(fmt.Sprintf("%s.%s/registers-exactly-the-given-factory", pkgName, name), props, BoolC(ok), nil,
			"the registration function is exactly  "+ti.Var+"[key] = factory  (the tables are extracted under this reading: it must not call, wrap or replace the factory)", pkgName+"."+name))
	}
	// (c) the package initialiser starts every table as an empty map
	if init := p.Func("init"); init != nil {
		for _, name := range V.sortedTableNames(pkgPath) {
			ti := V.tables[name]
			g, _ := p.Members[ti.Var].(*ssa.Global)
			if g == nil {
				continue
			}
			ok, stores := true, 0
			for _, b := range init.Blocks {
				for _, in := range b.Instrs {
					st, isSt := in.(*ssa.Store)
					if !isSt || st.Addr != ssa.Value(g) {
						continue
					}
					stores++
					mm, isMM := st.Val.(*ssa.MakeMap)
					if !isMM {
						ok = false
						continue
					}
					for _, r := range *mm.Referrers() {
						switch r.(type) {
						case *ssa.Store, *ssa.DebugRef:
						default:
							ok = false // a map literal with entries: updates before the store
						}
					}
				}
			}
			out = append(out, mkOb(fmt.Sprintf("%s.init/table(%s)/starts-empty", pkgName, ti.Var), props, BoolC(ok && stores <= 1), nil,
				"the package initialiser creates the table as an empty map (entries come from the init functions only, which are executed)", pkgName+".init"))
		}
	}
	// the package initialiser only initialises: it calls the initialisers of imported packages and the init functions
	// (which are executed for the table extraction), and builds the initial values of the package-level variables
	// from allocations and constants — no other call, no closure (a `var _ = func() { codec.Remove(…) … }()` would be
	// start-up code that nothing here looks at)
	if init := p.Func("init"); init != nil {
		bad := ""
		for _, b := range init.Blocks {
			for _, in := range b.Instrs {
				switch in := in.(type) {
				case *ssa.MakeClosure:
					bad = "builds a closure"
				case ssa.CallInstruction:
					cc := in.Common()
					if _, isB := cc.Value.(*ssa.Builtin); isB {
						continue
					}
					cal := cc.StaticCallee()
					if cal == nil {
						bad = "calls a function value"
					} else if n := cal.Name(); !(n == "init" || strings.HasPrefix(n, "init#")) {
						if !(cal.Pkg != nil && purePackages[cal.Pkg.Pkg.Path()]) && !(cal.Pkg == p && accounted[cal] == "" && (&purity{V: V, memo: map[*ssa.Function]string{}, visited: map[*ssa.Function]bool{}}).impure(cal, 0) == "") {
							bad = "calls " + cal.String()
						}
					}
				}
			}
		}
		d := "the package initialiser only allocates initial values and runs the init functions"
		if bad != "" {
			d += ": it " + bad
		}
		out = append(out, mkOb(fmt.Sprintf("%s.init/only-initialises", pkgName), props, BoolC(bad == ""), nil, d, pkgName+".init"))
	}
	// byte order, syntactically (C03): a function of a little-endian protocol / an …LE function of the library never
	// mentions binary.BigEndian, and the other way round — whatever the reachability of the code that does
	for _, f := range fns {
		want := ""
		switch {
		case strings.HasSuffix(pkgPath, "/codec"):
			if strings.HasSuffix(f.Name(), "LE") {
				want = "LittleEndian"
			} else if f.Signature.Recv() == nil && (strings.HasPrefix(f.Name(), "Read") || strings.HasPrefix(f.Name(), "Write")) {
				want = "BigEndian"
			}
		default:
			ord := protoOrder[pkgName]
			if rc := f.Signature.Recv(); rc != nil {
				if n := namedOf(rc.Type()); n != nil {
					if o, ok := handWritten[pkgName+"."+n.Obj().Name()]; ok {
						ord = o
					} else if o, ok := handWritten[n.Obj().Name()]; ok {
						ord = o
					}
				}
			}
			if ord == "LE" {
				want = "LittleEndian"
			} else if ord == "BE" {
				want = "BigEndian"
			}
		}
		if want == "" {
			continue
		}
		other := map[string]string{"LittleEndian": "BigEndian", "BigEndian": "LittleEndian"}[want]
		uses := false
		var scan func(g *ssa.Function)
		scan = func(g *ssa.Function) {
			for _, b := range g.Blocks {
				for _, in := range b.Instrs {
					for _, op := range in.Operands(nil) {
						if gl, ok := (*op).(*ssa.Global); ok && gl.Pkg != nil && gl.Pkg.Pkg.Path() == "encoding/binary" && gl.Name() == other {
							uses = true
						}
					}
					if mc, ok := in.(*ssa.MakeClosure); ok {
						if cf, ok := mc.Fn.(*ssa.Function); ok {
							scan(cf)
						}
					}
				}
			}
		}
		scan(f)
		if uses {
			fname := f.Name()
			if rc := f.Signature.Recv(); rc != nil {
				fname = "(" + strings.Replace(rc.Type().String(), pkgPath+".", "", 1) + ")." + fname
			}
			out = append(out, mkOb(fmt.Sprintf("%s.%s/byteorder/mentions-only-%s", pkgName, fname, want), props, False, nil,
				"the function belongs to a "+want+" protocol / variant and yet refers to binary."+other+" (on whatever path)", pkgName+"."+fname))
		}
	}
	// order of evaluation: the language does not say whether a variable is read before or after a call in the same
	// statement; go/ssa (which is what is verified) and the gc compiler (which is what runs) choose differently. A
	// statement that reads a variable or a field and also calls something that can write it is therefore refused.
	if lp := V.lpkgs[pkgPath]; lp != nil {
		for _, file := range lp.Syntax {
			fname := filepath.Base(lp.Fset.Position(file.Pos()).Filename)
			if fname == "zz_contracts_verif.go" {
				continue
			}
			ast.Inspect(file, func(n ast.Node) bool {
				var exprs []ast.Expr
				switch st := n.(type) {
				case *ast.AssignStmt:
					exprs = append(exprs, st.Rhs...)
					if len(st.Rhs) == 1 && len(st.Lhs) == 1 {
						if _, isCall := st.Rhs[0].(*ast.CallExpr); isCall {
							return true // x = f(...): nothing is read beside the call
						}
					}
				case *ast.ReturnStmt:
					exprs = st.Results
				case *ast.ExprStmt, *ast.IfStmt, *ast.ForStmt, *ast.BlockStmt, *ast.FuncDecl, *ast.File, *ast.DeclStmt, *ast.GenDecl, *ast.ValueSpec, *ast.RangeStmt, *ast.SwitchStmt, *ast.CaseClause, *ast.DeferStmt, *ast.GoStmt, *ast.FuncLit:
					return true
				default:
					return true
				}
				if msg := unorderedReadAndCall(lp.TypesInfo, exprs); msg != "" {
					pos := lp.Fset.Position(n.Pos())
					out = append(out, mkOb(fmt.Sprintf("%s/%s:%d/evaluation-order", pkgName, fname, pos.Line), props, False, nil,
						"the statement reads a variable and calls something that can write it; the order is unspecified and differs between go/ssa and the compiler: "+msg, pkgName))
				}
				return true
			})
		}
	}
	// what is verified is what is built: every non-test Go file of the package directory is part of the loaded
	// package (no file selected or excluded by a build constraint; the comment-only contract file is the exception)
	if lp := V.lpkgs[pkgPath]; lp != nil && len(lp.GoFiles) > 0 {
		dir := filepath.Dir(lp.GoFiles[0])
		loaded := map[string]bool{}
		for _, f := range lp.GoFiles {
			loaded[filepath.Base(f)] = true
		}
		var left []string
		if ents, err := os.ReadDir(dir); err == nil {
			for _, e := range ents {
				n := e.Name()
				if e.IsDir() || !strings.HasSuffix(n, ".go") || strings.HasSuffix(n, "_test.go") || n == "zz_contracts_verif.go" || loaded[n] {
					continue
				}
				left = append(left, n)
			}
		}
		d := "every Go file of the package directory is part of the build that is verified (a file behind a build constraint is code the checks never see)"
		if len(left) > 0 {
			d += ": not loaded: " + strings.Join(left, ", ")
		}
		out = append(out, mkOb(fmt.Sprintf("%s/files/all-built-files-verified", pkgName), props, BoolC(len(left) == 0), nil, d, pkgName))
		// and none of the loaded files carries a build constraint of its own
		var constrained []string
		for _, f := range lp.GoFiles {
			if b, err := os.ReadFile(f); err == nil {
				head := string(b)
				if i := strings.Index(head, "\npackage "); i >= 0 {
					head = head[:i]
				}
				if strings.Contains(head, "//go:build") || strings.Contains(head, "// +build") {
					constrained = append(constrained, filepath.Base(f))
				}
			}
		}
		d2 := "no verified file is selected by a build constraint (another configuration would build other code)"
		if len(constrained) > 0 {
			d2 += ": " + strings.Join(constrained, ", ")
		}
		out = append(out, mkOb(fmt.Sprintf("%s/files/no-build-constraints", pkgName), props, BoolC(len(constrained) == 0), nil, d2, pkgName))
	}
	// (e) everything else is pure
	for _, f := range fns {
		if accounted[f] != "" || f.Parent() != nil {
			continue
		}
		pu := &purity{V: V, memo: map[*ssa.Function]string{}, visited: map[*ssa.Function]bool{}}
		pu.ctor = f.Signature.Recv() == nil && strings.HasPrefix(f.Name(), "New") && f.Signature.Params().Len() == 0
		if pu.ctor && f.Signature.Results().Len() == 1 && hasCodecMethods(f.Signature.Results().At(0).Type()) {
			// the constructor of a message type returns a fresh ZERO value (what all 168 generated constructors do:
			// `return &T{}`): one heap allocation of T, no store, no call, that allocation returned
			zero := len(f.Blocks) == 1
			var alloc *ssa.Alloc
			if zero {
				for _, in := range f.Blocks[0].Instrs {
					switch in := in.(type) {
					case *ssa.Alloc:
						if alloc != nil {
							zero = false
						}
						alloc = in
					case *ssa.DebugRef:
					case *ssa.Return:
						if len(in.Results) != 1 || alloc == nil || in.Results[0] != ssa.Value(alloc) {
							zero = false
						}
					default:
						zero = false
					}
				}
			}
			out = append(out, mkOb(fmt.Sprintf("%s.%s/returns-fresh-zero-value", pkgName, f.Name()), props, BoolC(zero), nil,
				"the constructor of a message type returns a freshly allocated zero value (no preset discriminator, no pre-built or shared parts): the guarantees about constructor results rest on this", pkgName+"."+f.Name()))
		}
		if f.Signature.Recv() != nil && !implicitMethods[f.Name()] {
			pu.ownRecv = f
		}
		r := pu.impure(f, 0)
		what := "a function without contract and without verified caller has no effect on messages, buffers or package-level state"
		if pu.ctor {
			what = "a constructor returns an object built from fresh allocations and constants only (no shared parts, no nil list slots) and has no other effect"
		}
		fname := f.Name()
		if rc := f.Signature.Recv(); rc != nil {
			fname = "(" + strings.Replace(rc.Type().String(), pkgPath+".", "", 1) + ")." + fname
		}
		d := what
		if r != "" {
			d += ": " + r
		}
		out = append(out, mkOb(fmt.Sprintf("%s.%s/pure", pkgName, fname), props, BoolC(r == ""), nil, d, pkgName+"."+fname))
	}
	return out
}

// unorderedReadAndCall looks at the operand expressions of one statement (the right-hand sides of an assignment, the
// results of a return): if one operand (outside any call) reads variable v or field r.f, and another operand contains
// a call that is handed &v, or a method call on r (or on something reached from r) — the call may write what the
// other operand reads. Operands of a single call are not compared with that call itself (arguments are evaluated
// before the call).
func unorderedReadAndCall(info *types.Info, exprs []ast.Expr) string {
	if len(exprs) == 0 {
		return ""
	}
	// split binary expressions into their operands as well
	var ops []ast.Expr
	var split func(e ast.Expr)
	split = func(e ast.Expr) {
		switch x := e.(type) {
		case *ast.BinaryExpr:
			split(x.X)
			split(x.Y)
		case *ast.ParenExpr:
			split(x.X)
		default:
			ops = append(ops, e)
		}
	}
	for _, e := range exprs {
		split(e)
	}
	if len(ops) < 2 {
		// a single call: compare its arguments among themselves (f(p.n, p.bump()))
		if len(ops) == 1 {
			if c, ok := ops[0].(*ast.CallExpr); ok {
				return unorderedReadAndCall(info, c.Args)
			}
		}
		return ""
	}
	rootOf := func(e ast.Expr) types.Object {
		for {
			switch x := e.(type) {
			case *ast.SelectorExpr:
				e = x.X
			case *ast.IndexExpr:
				e = x.X
			case *ast.StarExpr:
				e = x.X
			case *ast.ParenExpr:
				e = x.X
			case *ast.Ident:
				if info != nil {
					if o, ok := info.Uses[x].(*types.Var); ok {
						return o
					}
				}
				return nil
			default:
				return nil
			}
		}
	}
	type callFact struct {
		roots map[types.Object]bool // variables whose address is taken for the call, or that are receivers of it
		src   string
	}
	facts := make([]*callFact, len(ops))
	reads := make([]map[types.Object]bool, len(ops))
	for i, op := range ops {
		reads[i] = map[types.Object]bool{}
		cf := &callFact{roots: map[types.Object]bool{}}
		ast.Inspect(op, func(n ast.Node) bool {
			switch x := n.(type) {
			case *ast.CallExpr:
				if sel, ok := x.Fun.(*ast.SelectorExpr); ok {
					if s := info.Selections[sel]; s != nil && s.Kind() == types.MethodVal {
						if o := rootOf(sel.X); o != nil {
							if _, isPtr := s.Recv().Underlying().(*types.Pointer); isPtr || s.Obj().(*types.Func).Type().(*types.Signature).Recv() != nil {
								if _, ptrRecv := s.Obj().(*types.Func).Type().(*types.Signature).Recv().Type().(*types.Pointer); ptrRecv {
									cf.roots[o] = true
								}
							}
						}
					}
				}
				for _, a := range x.Args {
					if u, ok := a.(*ast.UnaryExpr); ok && u.Op == token.AND {
						if o := rootOf(u.X); o != nil {
							cf.roots[o] = true
						}
					}
				}
			case *ast.Ident:
				if o, ok := info.Uses[x].(*types.Var); ok && !o.IsField() {
					reads[i][o] = true
				}
			}
			return true
		})
		if len(cf.roots) > 0 {
			facts[i] = cf
		}
	}
	for i, cf := range facts {
		if cf == nil {
			continue
		}
		for j := range ops {
			if i == j {
				continue
			}
			// operand j is a plain read (no call of its own that would order things)? any read counts
			for o := range cf.roots {
				if reads[j][o] {
					// reading the receiver variable itself only to call a value-independent accessor is common
					// (buf.Len() next to buf.Write()); restrict to operands that contain no call at all
					hasCall := false
					ast.Inspect(ops[j], func(n ast.Node) bool {
						if _, ok := n.(*ast.CallExpr); ok {
							hasCall = true
						}
						return true
					})
					if !hasCall {
						return fmt.Sprintf("%s is read by one operand and may be written by a call in another", o.Name())
					}
				}
			}
		}
	}
	return ""
}
