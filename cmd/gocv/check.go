package main

// gocv check <Cnn> <quick|thorough>: generates the obligations a property depends on from the
// current working tree of /repo, discharges them, reports violations and writes the evidence file.

import (
	"encoding/json"
	"fmt"
	"go/types"
	"os"
	"path/filepath"
	"sort"
	"strconv"
	"strings"
	"time"

	"golang.org/x/tools/go/ssa"
)

type checkCtx struct {
	V         *Verifier
	prop      string
	tier      string
	seed      int
	obs       []*Obligation
	funcs     map[string]bool
	notes     []string
	bounded   []map[string]string
	cfg       *solveCfg
	t0        time.Time
	encCache  map[string]*EncInfo
	didTables bool
	inClosure bool
}

var unsignedTs = []string{"uint8", "uint16", "uint32", "uint64"}
var basicKs = []string{"int8", "int16", "int32", "int64", "uint8", "uint16", "uint32", "uint64", "float32", "float64"}

// repoInstantiations collects the type-argument tuples with which generic codec functions are
// used anywhere in the repository (closed under calls between generic functions).
func (V *Verifier) repoInstantiations() map[string][][]types.Type {
	out := map[string][][]types.Type{}
	seen := map[string]bool{}
	var add func(origin *ssa.Function, targs []types.Type)
	add = func(origin *ssa.Function, targs []types.Type) {
		for _, t := range targs {
			if _, ok := t.(*types.TypeParam); ok {
				return
			}
		}
		key := origin.String() + "|"
		for _, t := range targs {
			key += t.String() + ","
		}
		if seen[key] {
			return
		}
		seen[key] = true
		short := shortFuncName(origin)
		out[short] = append(out[short], targs)
		// calls made by the generic body under this substitution
		sigma := Subst{}
		if origin.TypeParams() != nil {
			for i := 0; i < origin.TypeParams().Len() && i < len(targs); i++ {
				sigma[origin.TypeParams().At(i)] = targs[i]
			}
		}
		x := &Exec{sigma: sigma}
		for _, b := range origin.Blocks {
			for _, in := range b.Instrs {
				c, ok := in.(ssa.CallInstruction)
				if !ok {
					continue
				}
				f := c.Common().StaticCallee()
				if f == nil || f.Origin() == nil || f.Origin().Pkg == nil || !V.inRepo(f.Origin().Pkg.Pkg.Path()) {
					continue
				}
				var ts []types.Type
				for _, t := range f.TypeArgs() {
					ts = append(ts, x.resolve(t))
				}
				add(f.Origin(), ts)
			}
		}
	}
	for path, p := range V.pkgs {
		if !V.inRepo(path) {
			continue
		}
		var fns []*ssa.Function
		for _, m := range p.Members {
			switch m := m.(type) {
			case *ssa.Function:
				fns = append(fns, m)
				fns = append(fns, m.AnonFuncs...)
			case *ssa.Type:
				ms := V.prog.MethodSets.MethodSet(types.NewPointer(m.Type()))
				for i := 0; i < ms.Len(); i++ {
					if f := V.prog.MethodValue(ms.At(i)); f != nil && f.Pkg == p {
						fns = append(fns, f)
					}
				}
			}
		}
		for _, fn := range fns {
			if fn.TypeParams() != nil && fn.TypeParams().Len() > 0 {
				continue
			}
			for _, b := range fn.Blocks {
				for _, in := range b.Instrs {
					c, ok := in.(ssa.CallInstruction)
					if !ok {
						continue
					}
					f := c.Common().StaticCallee()
					if f == nil || f.Origin() == nil || f.Origin().Pkg == nil || !V.inRepo(f.Origin().Pkg.Pkg.Path()) {
						continue
					}
					add(f.Origin(), f.TypeArgs())
				}
			}
		}
	}
	return out
}

func typeList(names ...string) []types.Type {
	var out []types.Type
	for _, n := range names {
		out = append(out, basicByName[n])
	}
	return out
}

// instantiationsFor lists the type-argument tuples a generic codec function is verified for.
func (c *checkCtx) instantiationsFor(fn *ssa.Function, short string, used map[string][][]types.Type) [][]types.Type {
	if fn.TypeParams() == nil || fn.TypeParams().Len() == 0 {
		return [][]types.Type{nil}
	}
	var out [][]types.Type
	seen := map[string]bool{}
	add := func(ts []types.Type) {
		k := ""
		for _, t := range ts {
			if t == nil {
				k += "?,"
			} else {
				k += t.String() + ","
			}
		}
		if !seen[k] {
			seen[k] = true
			out = append(out, ts)
		}
	}
	n := fn.TypeParams().Len()
	objParam := -1
	for i := 0; i < n; i++ {
		if isCodecInterface(fn.TypeParams().At(i).Constraint()) {
			objParam = i
		}
	}
	for _, ts := range used[short] {
		if objParam >= 0 && c.prop != "C10" {
			// message-part element types: verified once with the element type abstract
			add(ts[:objParam])
		} else {
			add(ts)
		}
	}
	if c.tier == "thorough" && !c.inClosure || len(out) == 0 {
		first := unsignedTs
		if n == 1 && !strings.Contains(short, "String") && short != "checkPrefix" && !strings.Contains(short, "List") {
			first = basicKs // scalar read / write
		}
		for _, a := range first {
			if n == 1 || objParam == 1 {
				add(typeList(a))
				continue
			}
			second := basicKs
			if strings.Contains(short, "StringList") {
				second = unsignedTs
			}
			for _, b := range second {
				add(typeList(a, b))
			}
		}
	}
	if c.tier != "thorough" && n == 2 && objParam < 0 {
		// the repository only instantiates these with equal prefix types; one mixed instantiation each way
		// keeps "count prefix" and "element prefix / element type" apart also in the quick tier
		if strings.Contains(short, "StringList") {
			add(typeList("uint16", "uint8"))
			add(typeList("uint8", "uint16"))
		} else {
			add(typeList("uint8", "int32"))
		}
	}
	if c.tier != "thorough" && len(out) == 0 {
		out = append(out, nil)
	}
	return out
}

// codecTask verifies the named functions of package codec (all if names is nil) for the given runs.
func (c *checkCtx) codecTask(names []string, runs []string) {
	pkgPath := modPath + "/codec"
	cf := c.V.files[pkgPath]
	if cf == nil {
		c.obs = append(c.obs, &Obligation{Name: "codec/contracts-present", Kind: "contract", Goal: False, Detail: "contract file of package codec not found"})
		return
	}
	used := c.V.repoInstantiations()
	want := map[string]bool{}
	for _, n := range names {
		want[n] = true
	}
	var only map[string]bool
	if runs != nil {
		only = map[string]bool{}
		for _, r := range runs {
			only[r] = true
		}
	}
	for _, name := range cf.Order {
		if names != nil && !want[name] {
			continue
		}
		if names == nil && (strings.HasPrefix(name, "(*") || name == "Registry" || name == "Get" || name == "Remove" || name == "Clear") {
			continue // checksum services and the registry belong to C05 / C14 / C19 and are named explicitly there
		}
		fn := c.V.lookupFunc(pkgPath, name)
		if fn == nil {
			c.obs = append(c.obs, &Obligation{Name: "codec." + name + "/function-present", Func: "codec." + name, Kind: "contract", Goal: False, Detail: "the contract names a function that no longer exists"})
			continue
		}
		fc := cf.Funcs[name]
		formatRelative := c.prop != "C02" && c.prop != "C03" && c.prop != "C13"
		insts := c.instantiationsFor(fn, name, used)
		// instantiations in which every type argument is wider than one byte come first: only they can tell the two
		// byte orders apart, so only they may look for the order the code actually uses (see resolveHoles)
		sort.SliceStable(insts, func(i, j int) bool { return discriminating(insts[i]) && !discriminating(insts[j]) })
		for _, ts := range insts {
			tg, err := c.V.target(pkgPath, name, ts)
			if err != nil {
				continue
			}
			c.funcs[tg.Inst] = true
			obs := c.guard(tg.Inst, "verify", func() []*Obligation { return c.V.VerifyFunction(tg, only) })
			if len(fc.Holes) > 0 && formatRelative && discriminating(ts) {
				// pinned versus extracted format (DESIGN 4.5): if the pinned byte order does not verify, look for the
				// order the code actually uses; format-relative properties are then proved against that one, and
				// the deviation is C02 / C03's to report
				if alt := c.resolveHoles(tg, fc, obs, only); alt != nil {
					obs = alt
				}
			}
			c.obs = append(c.obs, obs...)
		}
	}
}

// discriminating: no type argument is a one-byte type (for which big- and little-endian coincide).
func discriminating(ts []types.Type) bool {
	for _, t := range ts {
		if ti, ok := basicInfo(t); ok && ti.Width == 1 {
			return false
		}
	}
	return true
}

func allDischarged(obs []*Obligation) bool {
	for _, o := range obs {
		if !o.Canary && !o.Discharged() {
			return false
		}
	}
	return true
}

var holeSearchSpent time.Duration

func (c *checkCtx) resolveHoles(tg FuncTarget, fc *FuncContract, pinned []*Obligation, only map[string]bool) []*Obligation {
	cfg := *c.cfg
	cfg.needTwo = false
	var real []*Obligation
	for _, o := range pinned {
		if !o.Canary {
			real = append(real, o)
		}
	}
	dischargeAll(real, &cfg)
	if allDischarged(pinned) {
		return nil
	}
	key := fc.Pkg + "." + fc.Name
	saved := c.V.holeRes[key]
	// The search for another assignment is a courtesy to the format-relative properties (a consistent two-sided
	// change of byte order is C02 / C03's business, not theirs). It must not make the check of a broken tree
	// run for a quarter of an hour: alternatives get a short time limit and no second attempt, and the whole
	// search has a budget per check; without a search the pinned failures are reported as they are.
	if holeSearchSpent > 90*time.Second {
		return nil
	}
	t0 := time.Now()
	defer func() { holeSearchSpent += time.Since(t0) }()
	cfg.timeout, cfg.retried = 5, true
	// enumerate the other assignments
	n := len(fc.Holes)
	for mask := 1; mask < 1<<uint(n); mask++ {
		asg := map[string]string{}
		for i, h := range fc.Holes {
			v := h.Pinned
			if mask&(1<<uint(i)) != 0 {
				for _, alt := range h.Values {
					if alt != h.Pinned {
						v = alt
					}
				}
			}
			asg[h.Name] = v
		}
		c.V.holeRes[key] = asg
		obs := c.V.VerifyFunction(tg, only)
		var r2 []*Obligation
		for _, o := range obs {
			if !o.Canary {
				r2 = append(r2, o)
			}
		}
		dischargeAll(r2, &cfg)
		if allDischarged(obs) {
			c.notes = append(c.notes, fmt.Sprintf("%s verifies with byte orders %v instead of the pinned ones (reported by C02 / C03)", tg.Inst, asg))
			return obs
		}
	}
	if saved != nil {
		c.V.holeRes[key] = saved
	} else {
		delete(c.V.holeRes, key)
	}
	// no assignment verifies: un-discharge the pinned obligations' cached failures so that they are reported as they are
	return nil
}

func (c *checkCtx) lemmaTask(names ...string) {
	for _, n := range names {
		l := c.V.findLemma(n)
		if l == nil {
			c.obs = append(c.obs, &Obligation{Name: "lemma/" + n + "/present", Kind: "lemma", Goal: False, Detail: "lemma missing from the contract files"})
			continue
		}
		c.obs = append(c.obs, c.V.VerifyLemma(l)...)
	}
}

func (c *checkCtx) rawLemma(file, detail string) {
	b, err := os.ReadFile(filepath.Join(c.V.verifDir, "lemmas", file))
	if err != nil {
		c.obs = append(c.obs, &Obligation{Name: "lemma/" + file, Kind: "lemma", Goal: False, Detail: "lemma file missing"})
		return
	}
	// split a multi-query file (push/pop) into one obligation per check-sat
	text := string(b)
	if strings.Count(text, "(check-sat)") <= 1 {
		c.obs = append(c.obs, &Obligation{Name: "lemma/" + strings.TrimSuffix(file, ".smt2"), Func: "lemma/" + file, Kind: "lemma", Raw: text, Mode: "bv", Detail: detail})
		return
	}
	head := text[:strings.Index(text, "(push)")]
	parts := strings.Split(text[strings.Index(text, "(push)"):], "(push)")
	k := 0
	for _, p := range parts {
		p = strings.TrimSpace(p)
		if p == "" {
			continue
		}
		k++
		body := strings.Replace(p, "(pop)", "", 1)
		// drop comment lines between queries
		c.obs = append(c.obs, &Obligation{Name: fmt.Sprintf("lemma/%s#%d", strings.TrimSuffix(file, ".smt2"), k), Func: "lemma/" + file, Kind: "lemma", Raw: head + body, Mode: "bv", Detail: detail})
	}
}

func (c *checkCtx) enc(mt *MsgType) *EncInfo {
	if e, ok := c.encCache[mt.Name]; ok {
		return e
	}
	e := c.V.EncodeOK(mt, []string{c.prop})
	c.encCache[mt.Name] = e
	return e
}

func (c *checkCtx) msgTask(runs ...string) {
	want := map[string]bool{}
	for _, r := range runs {
		want[r] = true
	}
	p := []string{c.prop}
	for _, mt := range c.V.messageTypes() {
		c.funcs[mt.Name+".Encode"] = true
		c.funcs[mt.Name+".Decode"] = true
		if want["ok"] {
			c.obs = append(c.obs, c.guard(mt.Name, "EncodeOK", func() []*Obligation { return c.enc(mt).Obs })...)
		}
		if want["safe"] {
			c.obs = append(c.obs, c.guard(mt.Name, "EncodeSafe", func() []*Obligation { return c.V.EncodeSafe(mt, p) })...)
		}
		if want["toolong"] {
			c.obs = append(c.obs, c.guard(mt.Name, "EncodeTooLong", func() []*Obligation { return c.V.EncodeTooLong(mt, p) })...)
		}
		if want["rt"] {
			c.obs = append(c.obs, c.guard(mt.Name, "DecodeRT", func() []*Obligation { return c.V.DecodeRT(mt, c.enc(mt), p) })...)
		}
		if want["decsafe"] {
			c.obs = append(c.obs, c.guard(mt.Name, "DecodeSafe", func() []*Obligation { return c.V.DecodeSafe(mt, p) })...)
		}
		if want["re"] {
			c.obs = append(c.obs, c.guard(mt.Name, "DecodeRE", func() []*Obligation { return c.V.DecodeRE(mt, p) })...)
		}
		if want["repeat"] {
			c.obs = append(c.obs, c.guard(mt.Name, "EncodeRepeat", func() []*Obligation { return c.V.EncodeRepeat(mt, c.enc(mt), p) })...)
		}
		if want["layout"] {
			c.obs = append(c.obs, c.guard(mt.Name, "CheckLayout", func() []*Obligation { return c.V.CheckLayout(mt, c.enc(mt), p) })...)
		}
		if want["orders"] {
			c.obs = append(c.obs, c.guard(mt.Name, "CheckOrders", func() []*Obligation { return c.V.CheckOrders(mt, c.enc(mt), p) })...)
		}
		if want["frameC04"] {
			c.obs = append(c.obs, c.guard(mt.Name, "CheckFrame", func() []*Obligation { return c.V.CheckFrame(mt, c.enc(mt), "C04", p) })...)
		}
		if want["frameC05"] {
			c.obs = append(c.obs, c.guard(mt.Name, "CheckFrame", func() []*Obligation { return c.V.CheckFrame(mt, c.enc(mt), "C05", p) })...)
		}
	}
}

// guard turns a crash of the verifier on one function into a failed obligation for that function (fail closed):
// code the engine cannot process is not verified, and the check must say so rather than die.
func (c *checkCtx) guard(fn, what string, f func() []*Obligation) (obs []*Obligation) {
	defer func() {
		if r := recover(); r != nil {
			msg := fmt.Sprint(r)
			if len(msg) > 200 {
				msg = msg[:200]
			}
			obs = append(obs, &Obligation{Name: fn + "/" + what + "/engine-limit", Func: fn, Kind: "subset", Props: []string{c.prop}, Goal: False,
				Detail: "the verifier could not process this function (treated as outside the verified subset): " + msg})
		}
	}()
	return f()
}

func (c *checkCtx) tablesTask() {
	c.didTables = true
	var paths []string
	for path := range c.V.pkgs {
		if c.V.inRepo(path) && strings.HasSuffix(path, "/messages") {
			paths = append(paths, path)
		}
	}
	sort.Strings(paths)
	for _, path := range paths {
		c.obs = append(c.obs, c.V.CheckTables(path, []string{c.prop})...)
		c.obs = append(c.obs, c.V.VerifyTableFuncs(path, []string{c.prop})...)
	}
}

// outDir: where evidence and replay files go (/verif, or a scratch directory for self-test runs)
func (c *checkCtx) outDir() string { return envOr("VERIF_OUT", c.V.verifDir) }

func seedFromEnv() int {
	if s := os.Getenv("VERIF_SEED"); s != "" {
		if v, err := strconv.Atoi(s); err == nil {
			return v
		}
	}
	return 0
}

func cmdCheck(args []string) int {
	if len(args) < 1 {
		fmt.Fprintln(os.Stderr, "usage: gocv check <Cnn> [quick|thorough]")
		return 2
	}
	prop := args[0]
	tier := "quick"
	if len(args) > 1 {
		tier = args[1]
	}
	if t := os.Getenv("VERIF_TIER"); t != "" && len(args) < 2 {
		tier = t
	}
	repo := envOr("VERIF_REPO", "/repo")
	vdir := envOr("VERIF_DIR", "/verif")
	t0 := time.Now()
	V, err := LoadVerifier(repo, vdir)
	if err != nil {
		fmt.Fprintln(os.Stderr, "gocv: cannot load the repository:", err)
		// a tree that does not type-check cannot satisfy any property claimed by proof
		return writeLoadFailure(vdir, prop, tier, err)
	}
	if err := loadPrelude(vdir); err != nil {
		fmt.Fprintln(os.Stderr, err)
		return 2
	}
	V.tier = tier
	c := &checkCtx{V: V, prop: prop, tier: tier, seed: seedFromEnv(), funcs: map[string]bool{}, t0: t0, encCache: map[string]*EncInfo{}}
	c.cfg = &solveCfg{timeout: 10, seed: c.seed, scratch: scratchDir(), parallel: 14}
	if tier != "thorough" && os.Getenv("VERIF_NOCACHE") == "" {
		c.cfg.cacheDir = envOr("VERIF_CACHE", filepath.Join(vdir, ".cache", "smt"))
	}
	if tier == "thorough" {
		c.cfg.timeout = 30
		c.cfg.useCvc5 = false
		c.cfg.needTwo = true
	}
	defer os.RemoveAll(c.cfg.scratch)
	known := true
	func() {
		// fail closed: if the generator itself dies on the code it is given, the code is not verified -
		// that is a failed obligation of this property (reported as such), not a crash with an unclear exit code
		defer func() {
			if r := recover(); r != nil {
				msg := fmt.Sprint(r)
				if len(msg) > 300 {
					msg = msg[:300]
				}
				fmt.Fprintln(os.Stderr, "gocv: the obligation generator stopped:", msg)
				c.obs = append(c.obs, &Obligation{Name: "gocv/plan(" + prop + ")/engine-limit", Func: "gocv", Kind: "subset", Props: []string{prop}, Goal: False,
					Detail: "the verifier could not process the code of this plan (treated as outside the verified subset, nothing is proved): " + msg})
			}
		}()
		known = c.plan()
	}()
	if !known {
		fmt.Fprintln(os.Stderr, "unknown property", prop)
		return 2
	}
	return c.finish()
}

// plan generates the obligations of the property (its own and those of its dependency closure).
func (c *checkCtx) plan() bool {
	V := c.V
	if os.Getenv("VERIF_TEST_PANIC") != "" { // self-test of the fail-closed guard in cmdCheck
		panic("VERIF_TEST_PANIC")
	}
	V.tableMode = "extracted"
	c.extractAllTables()
	switch c.prop {
	case "C01":
		c.codecTask(nil, []string{"safe", "ok", "rt", "full"})
		c.msgTask("ok", "rt")
	case "C02":
		V.tableMode = "pinned"
		c.codecTask(nil, []string{"safe", "ok", "rt", "full"})
		c.msgTask("ok", "layout", "rt")
		c.tablesTask()
		c.holesPinned()
	case "C03":
		c.codecTask(nil, []string{"safe", "ok", "rt", "re", "full"})
		c.holesPinned()
		c.rawLemma("encdec_bv.smt2", "fixed-width big/little-endian encoding: decode(encode(x)) = x, encode(decode(s)) = s, little-endian bytes are the big-endian bytes reversed")
		c.msgTask("ok", "orders")
	case "C04":
		c.codecTask([]string{"WriteBasicType", "WriteBasicTypeLE"}, []string{"safe"})
		c.msgTask("frameC04")
		c.frameSafety()
	case "C05":
		c.codecTask([]string{"WriteBasicType", "WriteBasicTypeLE", "(*SseBinChecksumService).Calc", "(*SzseBinChecksumService).Calc", "(*Crc32ChecksumService).Calc",
			"(*SseBinChecksumService).Algorithm", "(*SzseBinChecksumService).Algorithm", "(*Crc32ChecksumService).Algorithm"}, nil)
		c.msgTask("frameC05")
		c.frameSafety()
		c.registryInit()
	case "C06":
		c.codecTask(c.writerNames(), []string{"safe", "ok"})
		c.msgTask("ok", "safe", "repeat")
	case "C07":
		c.codecTask(nil, []string{"safe", "ok", "rt", "full"})
		c.msgTask("ok", "rt")
	case "C08":
		c.codecTask(nil, []string{"safe", "ok", "re", "full"})
		c.lemmaTask("flat_snoc")
		c.msgTask("re")
	case "C09":
		c.codecTask(c.readerNames(), []string{"safe", "short", "trunc"})
		c.msgTask("decsafe")
		c.tablesTask()
	case "C10":
		V.checkAlloc = true
		c.codecTask(c.readerNames(), []string{"safe"})
		c.msgTask("decsafe")
	case "C11":
		c.codecTask(nil, []string{"safe", "ok", "rt", "re", "full", "short", "trunc"})
		c.lemmaTask("flat_snoc")
		c.abstractLemmas("trunc")
		c.msgTask("ok", "rt", "re", "decsafe")
	case "C12":
		V.tableMode = "pinned"
		c.tablesTask()
		c.msgTask("ok", "rt", "safe", "decsafe")
	case "C13":
		c.codecTask([]string{"Padding", "WriteFixedStringWithPadding", "WriteFixedString", "ReadFixedStringTrimPadding", "ReadFixedString",
			"WriteFixedStringListWithPadding", "WriteFixedStringListWithPaddingLE", "WriteFixedStringList", "WriteFixedStringListLE",
			"ReadFixedStringListTrimPadding", "ReadFixedStringListTrimPaddingLE", "ReadFixedStringList", "ReadFixedStringListLE"}, nil)
		c.lemmaTask("flat_snoc")
		// every fixed-width field of every message uses its pinned width, pad byte and pad side, in both directions
		V.tableMode = "pinned"
		c.msgTask("ok", "layout", "rt")
	case "C14":
		c.codecTask([]string{"(*Crc16ChecksumService).Calc", "(*Crc32ChecksumService).Calc", "(*SseBinChecksumService).Calc", "(*SzseBinChecksumService).Calc",
			"(*Crc16ChecksumService).Algorithm", "(*Crc32ChecksumService).Algorithm", "(*SseBinChecksumService).Algorithm", "(*SzseBinChecksumService).Algorithm"}, nil)
		c.registryInit()
		c.rawLemma("crc16_rocksoft.smt2", "one byte step of the reflected CRC-16 loop equals, after bit reversal, one byte step of the Rocksoft MSB-first model (poly 0x8005, refin, refout), for all register values and bytes")
		c.rawLemma("crc16_check.smt2", "the reflected algorithm yields the published check value 0x4B37 on \"123456789\"")
		c.rawLemma("crcbit_bridge.smt2", "the integer formulation (mod 2, div 2, xor16) of one bit step is the bit-vector step")
		c.notes = append(c.notes, "CRC-32/IEEE itself is the trusted contract of hash/crc32.ChecksumIEEE (bounded conformance test in thorough mode)")
	case "C15":
		c.codecTask(nil, []string{"safe", "ok", "rt", "re", "full"})
		c.lemmaTask("flat_snoc")
		c.abstractLemmas("receiver_independent")
		c.msgTask("ok", "rt", "re")
	case "C16":
		c.framesTask("C16")
	case "C17":
		c.codecTask(c.writerNames(), []string{"safe"})
		c.msgTask("safe")
		c.tablesTask()
	case "C18":
		c.codecTask(append(c.writerNames(), "checkPrefix"), []string{"safe", "ok", "toolong", "elemtoolong"})
		c.msgTask("toolong", "ok", "rt")
	case "C19":
		c.registryTask()
		c.registryInit()
	case "C20":
		c.framesTask("C20")
		// Encode / Decode reach shared state only through codec.Get (the frame checksums): parallel use is race-free
		// only if concurrent look-ups are, i.e. Get obeys the lock discipline and its specification (C19's obligations
		// for Get; Registry / Remove / Clear run at start-up only and are C19's business)
		n := len(c.obs)
		c.registryTask()
		kept := c.obs[:n]
		for _, o := range c.obs[n:] {
			if strings.HasPrefix(o.Name, "codec.Get/") {
				o.Props = []string{"C20"}
				kept = append(kept, o)
			}
		}
		c.obs = kept
	default:
		return false
	}
	// Whole-package accounting (aux.go) for every property about messages or the library: the discriminator
	// tables and their look-up functions (which the message layer uses through a summary), the exact shape of the
	// registration functions, empty tables before init, and purity of everything that has neither a contract nor
	// a verified caller (constructors, String(), methods of new types).
	own := map[*Obligation]bool{}
	for _, o := range c.obs {
		own[o] = true
	}
	defer func() {
		// obligations of the closure (not of the property's own plan) may reuse cached answers; the plan's own are
		// always put to the solvers
		for _, o := range c.obs {
			if !own[o] {
				o.Closure = true
			}
		}
	}()
	switch c.prop {
	case "C14", "C19":
		if c.prop == "C14" {
			c.globalsObligations(c.prop) // a checksum depends on the bytes only: Calc touches no package-level state
			c.auxTask()
		}
	default:
		if !c.didTables {
			c.tablesTask()
		}
		c.auxTask()
		// dependency closure: the frames compute their checksums with the services found through codec.Get; every plan
		// that uses those contracts at call sites also verifies them (the services' Calc / Algorithm, that the built-in
		// services are registered at start-up, and Get's own specification)
		c.codecTask([]string{"(*Crc16ChecksumService).Calc", "(*Crc32ChecksumService).Calc", "(*SseBinChecksumService).Calc", "(*SzseBinChecksumService).Calc",
			"(*Crc16ChecksumService).Algorithm", "(*Crc32ChecksumService).Algorithm", "(*SseBinChecksumService).Algorithm", "(*SzseBinChecksumService).Algorithm"}, nil)
		// ... and every behaviour of every library function: the message layer applies those contracts at its call
		// sites (all behaviours, as implications, in the safety runs), so a plan that verified only the behaviours its
		// own statement names would rest on unverified ones. Obligations already generated above are not repeated.
		if c.prop != "C16" && c.prop != "C20" {
			// (for the closure the instantiations the repository uses, plus the mixed ones of the quick tier; the
			// full instantiation matrix of the thorough tier belongs to the property's own plan)
			c.inClosure = true
			c.codecTask(nil, nil)
			c.inClosure = false
			// likewise the schema contract of Encode / Decode that frames, carriers and list codecs apply to their
			// parts: exactly the format is appended and nothing before it is touched (ok, safe), a successful Decode
			// consumes at least the fixed bytes and leaves a suffix (decsafe)
			c.msgTask("ok", "safe", "decsafe")
		}
		c.registryInit()
		n := len(c.obs)
		c.registryTask()
		kept := c.obs[:n]
		for _, o := range c.obs[n:] {
			if strings.HasPrefix(o.Name, "codec.Get/") {
				o.Props = []string{c.prop}
				kept = append(kept, o)
			}
		}
		c.obs = kept
		if c.prop != "C20" {
			c.globalsObligations(c.prop)
		}
		c.dedupe()
	}
	return true
}

// dedupe drops obligations generated twice (the same function verified by two tasks of one plan).
func (c *checkCtx) dedupe() {
	seen := map[string]bool{}
	var out []*Obligation
	for _, o := range c.obs {
		k := o.Name + "\x00" + o.Func + "\x00" + o.Detail
		if o.Raw == "" && o.Goal != nil {
			k += "\x00" + o.Goal.Key()
			for _, h := range o.Hyps {
				k += "\x01" + h.Key()
			}
		}
		if seen[k] {
			continue
		}
		seen[k] = true
		out = append(out, o)
	}
	c.obs = out
}

func (c *checkCtx) auxTask() {
	var paths []string
	for path := range c.V.pkgs {
		if c.V.inRepo(path) && (strings.HasSuffix(path, "/messages") || strings.HasSuffix(path, "/codec")) {
			paths = append(paths, path)
		}
	}
	sort.Strings(paths)
	for _, path := range paths {
		path := path
		c.obs = append(c.obs, c.guard(path, "accounting", func() []*Obligation { return c.V.AuxCheck(path, []string{c.prop}) })...)
	}
}

func (c *checkCtx) extractAllTables() {
	for path := range c.V.pkgs {
		if c.V.inRepo(path) && strings.HasSuffix(path, "/messages") {
			_, tabs := c.V.ExtractTables(path)
			for k, v := range tabs {
				c.V.extracted[k] = v
			}
		}
	}
}

func (c *checkCtx) writerNames() []string {
	var out []string
	if cf := c.V.files[modPath+"/codec"]; cf != nil {
		for _, n := range cf.Order {
			if strings.HasPrefix(n, "Write") || n == "Padding" {
				out = append(out, n)
			}
		}
	}
	return out
}

func (c *checkCtx) readerNames() []string {
	var out []string
	if cf := c.V.files[modPath+"/codec"]; cf != nil {
		for _, n := range cf.Order {
			if strings.HasPrefix(n, "Read") || n == "boundedCap" {
				out = append(out, n)
			}
		}
	}
	return out
}

// frameSafety: the slice / patch operations of the frame encoders are in bounds for any prior buffer content.
func (c *checkCtx) frameSafety() {
	for _, mt := range c.V.messageTypes() {
		if ly := c.V.layoutFor(mt); ly != nil && ly.Frame {
			c.funcs[mt.Name+".Encode"] = true
			c.obs = append(c.obs, c.V.EncodeSafe(mt, []string{c.prop})...)
			c.obs = append(c.obs, c.enc(mt).Obs...)
		}
	}
}

// holesPinned: every byte-order hole of a codec contract is at its pinned value (no alternative was needed).
func (c *checkCtx) holesPinned() {
	cf := c.V.files[modPath+"/codec"]
	if cf == nil {
		return
	}
	for _, name := range cf.Order {
		fc := cf.Funcs[name]
		for _, h := range fc.Holes {
			val := h.Pinned
			if r, ok := c.V.holeRes[fc.Pkg+"."+fc.Name]; ok {
				if v, ok := r[h.Name]; ok {
					val = v
				}
			}
			want := "BE"
			if strings.HasSuffix(name, "LE") {
				want = "LE"
			}
			c.obs = append(c.obs, &Obligation{Name: fmt.Sprintf("codec.%s/hole(%s)=pinned", name, h.Name), Func: "codec." + name, Kind: "layout", Props: []string{c.prop},
				Goal: BoolC(val == h.Pinned && h.Pinned == want), Detail: fmt.Sprintf("byte order %s of %s is %s (the variant's own order); verified with %s", h.Name, name, want, val)})
		}
	}
}

// ---------------------------------------------------------------- finishing: discharge, report, evidence

type knownFinding struct {
	Property   string `json:"property"`
	Obligation string `json:"obligation"`
	What       string `json:"what"`
	Status     string `json:"status"`
}

func loadKnownFindings(vdir string) []knownFinding {
	var out struct {
		Findings []knownFinding `json:"findings"`
	}
	b, err := os.ReadFile(filepath.Join(vdir, "known_findings.json"))
	if err != nil {
		return nil
	}
	json.Unmarshal(b, &out)
	return out.Findings
}

func (c *checkCtx) finish() int {
	// unique names
	seen := map[string]int{}
	for _, o := range c.obs {
		seen[o.Name]++
		if n := seen[o.Name]; n > 1 {
			o.Name = fmt.Sprintf("%s~%d", o.Name, n)
		}
	}
	gen := time.Since(c.t0).Seconds()
	// vacuity canaries are solved separately with a short time-out: they must NOT come back unsat
	var canaries, real []*Obligation
	for _, o := range c.obs {
		if o.Canary {
			canaries = append(canaries, o)
		} else {
			real = append(real, o)
		}
	}
	c.obs = real
	if len(canaries) > 0 {
		cfgc := *c.cfg
		cfgc.timeout = 2
		cfgc.needTwo = false
		cfgc.useCvc5 = false
		dischargeAll(canaries, &cfgc)
		for _, o := range canaries {
			if o.Status == "unsat" {
				fmt.Printf("MACHINERY-BROKEN: vacuity canary proved: %s (%s) — a contract or the prelude is contradictory; nothing this run reports can be trusted\n", o.Name, o.Detail)
				return 2
			}
		}
		c.notes = append(c.notes, fmt.Sprintf("%d vacuity canaries (assumptions of every behaviour / lemma) checked: none is contradictory as far as the solvers can tell within 2 s", len(canaries)))
	}
	dischargeAll(c.obs, c.cfg)
	// retry failures once with a longer time-out before calling them failed
	var retry []*Obligation
	for _, o := range c.obs {
		if !o.Discharged() && (o.Status == "timeout" || o.Status == "unknown") && !(o.Raw == "" && o.Goal.IsFalse()) {
			o.Status, o.Backend = "", ""
			retry = append(retry, o)
		}
	}
	if len(retry) > 0 && len(retry) <= 200 {
		cfg2 := *c.cfg
		cfg2.timeout = c.cfg.timeout * 3
		cfg2.seed = c.seed + 1
		cfg2.useCvc5 = true
		dischargeAll(retry, &cfg2)
	} else {
		for _, o := range retry {
			o.Status = "unknown"
		}
	}
	known := loadKnownFindings(c.V.verifDir)
	total, ok, trivial := 0, 0, 0
	by := map[string]int{}
	var solveT float64
	var failed []*Obligation
	for _, o := range c.obs {
		if o.Status == "trivial" {
			trivial++
		}
		total++
		if o.Discharged() {
			ok++
			by[o.Backend]++
		} else {
			failed = append(failed, o)
		}
		solveT += o.Seconds
	}
	sort.Slice(c.obs, func(i, j int) bool { return c.obs[i].Seconds > c.obs[j].Seconds })
	var slowest []map[string]interface{}
	for i := 0; i < len(c.obs) && i < 5; i++ {
		slowest = append(slowest, map[string]interface{}{"obligation": c.obs[i].Name, "seconds": c.obs[i].Seconds, "backend": c.obs[i].Backend})
	}
	// vacuity: there must be obligations, and the bare prelude must be consistent as far as the solvers can tell
	rc := 0
	violations := 0
	os.MkdirAll(filepath.Join(c.outDir(), "evidence", "replay"), 0o755)
	var knownReported []string
	if total == 0 {
		fmt.Println("gocv: no obligations were generated — the check is vacuous")
		return 2
	}
	for i, o := range failed {
		isKnown := false
		for _, k := range known {
			if k.Property == c.prop && k.Status == "open" && k.Obligation == o.Name {
				isKnown = true
				fmt.Printf("KNOWN-FINDING: property=%s %s: %s\n", c.prop, o.Name, k.What)
				knownReported = append(knownReported, o.Name)
			}
		}
		if isKnown {
			continue
		}
		violations++
		if violations > 25 {
			continue
		}
		path := filepath.Join(c.outDir(), "evidence", "replay", fmt.Sprintf("%s-%d.json", c.prop, i+1))
		rp := c.writeReplay(o, path)
		suffix := " no-failing-input-found"
		if rp {
			suffix = ""
		}
		fmt.Printf("VIOLATION property=%s replay=%s obligation=%s%s\n", c.prop, path, o.Name, suffix)
		rc = 1
	}
	if violations > 25 {
		fmt.Printf("(%d further failed obligations not listed)\n", violations-25)
	}
	// thorough tier, nothing failed: a bounded sweep of the REAL code with the replay harnesses (random and boundary
	// values for every message type of every package; for C02 / C03 / C13 an interpreter of the pinned layouts that
	// shares no code with the symbolic engine). Labelled bounded; it can only add a violation, never remove one.
	if c.tier == "thorough" && rc == 0 && os.Getenv("VERIF_NOREPLAY") == "" && len(relatedProps[c.prop]) > 0 && c.prop != "C19" && c.prop != "C20" && c.prop != "C14" {
		found, res := c.replay(&Obligation{Func: "codec.sweep"})
		rr, _ := res.(*replayResult)
		if rr != nil {
			c.notes = append(c.notes, fmt.Sprintf("bounded (not proof): replay harnesses run against the real code on the tree as it is: %d message iterations, %d images compared with the pinned-layout interpreter (%d skipped), findings for this property: %v", rr.Iters, rr.Schema[0], rr.Schema[1], found))
		}
		if found {
			path := filepath.Join(c.outDir(), "evidence", "replay", fmt.Sprintf("%s-sweep.json", c.prop))
			m := map[string]interface{}{"property": c.prop, "obligation": "bounded/real-code-sweep", "what_is_being_proved": "bounded sweep of the real code by the replay harnesses (thorough tier); every obligation was discharged, yet the real code violates the property on the input below — the proof or a pinned layout is wrong, or an assumption of the trusted base fails",
				"status": "failing input found", "failing_input_found": true, "replay": rr}
			b, _ := json.MarshalIndent(m, "", " ")
			os.WriteFile(path, b, 0o644)
			fmt.Printf("VIOLATION property=%s replay=%s obligation=bounded/real-code-sweep\n", c.prop, path)
			rc = 1
			violations++
		}
	}
	c.writeEvidence(total, ok, trivial, by, solveT, gen, slowest, violations, knownReported)
	fmt.Printf("%s %s: %d obligations, %d discharged (%d by normaliser), %d failed; %d functions under contract; %.1fs\n", c.prop, c.tier, total, ok, trivial, len(failed), len(c.funcs), time.Since(c.t0).Seconds())
	return rc
}

func (c *checkCtx) writeReplay(o *Obligation, path string) bool {
	body := ""
	if o.Raw != "" {
		body = o.Raw
	} else {
		body = o.SMTBody()
	}
	if len(body) > 200000 {
		body = body[:200000] + "\n; (truncated)\n"
	}
	found, rep := c.replay(o)
	m := map[string]interface{}{
		"property":             c.prop,
		"obligation":           o.Name,
		"function":             o.Func,
		"kind":                 o.Kind,
		"what_is_being_proved": o.Detail,
		"status":               o.Status,
		"solver_output":        o.Output,
		"smt":                  body,
		"failing_input_found":  found,
		"replay":               rep,
	}
	b, _ := json.MarshalIndent(m, "", " ")
	os.WriteFile(path, b, 0o644)
	return found
}

func (c *checkCtx) writeEvidence(total, ok, trivial int, by map[string]int, solveT, gen float64, slowest []map[string]interface{}, violations int, known []string) {
	var funcs []string
	for f := range c.funcs {
		funcs = append(funcs, f)
	}
	sort.Strings(funcs)
	var trusted []string
	for k := range c.V.trustedUsed {
		trusted = append(trusted, "library contract (trusted, DESIGN 5.1): "+k)
	}
	sort.Strings(trusted)
	var assumptions []string
	for k := range c.V.assumptionsUsed {
		assumptions = append(assumptions, k)
	}
	sort.Strings(assumptions)
	base := []string{
		"the VC generator gocv itself (SSA semantics of the verified subset, heap-as-forest and buffer-as-unread-bytes abstractions, contract evaluation, SMT printing)",
		"go/packages + go/types + go/ssa (x/tools v0.29.0) as a faithful front end for the Go 1.24.2 compiler",
		"SMT solvers: an unsat answer of z3 4.8.12, z3 5.1.0 or cvc5 1.0",
		"the hand transcription of the 65 named prelude axioms (/verif/prelude/prelude.smt2) into the Lean theorems of prelude/Prelude.lean and prelude/Model.lean that prove them (checked by setup.sh and in the thorough tier), and the one-directional triggers chosen for them",
		"functions without contract and without verified caller (constructors, String(), Algorithm(), methods of other types) are judged by a conservative syntactic purity analysis of their SSA form (aux.go), not by contracts",
		"error values are abstracted to nil / non-nil",
		"64-bit + - * of the code are modelled as mathematical operations and each carries a no-overflow obligation in the safety run of its function (discharged like any other obligation; narrower integer types wrap exactly); the obligations use the type invariant that every byte sequence existing at run time (slice, string, buffer content) has a length representable as int",
		"ownership: a message is a tree (distinct fields, list elements, the receiver and the buffer do not alias); foreign BinaryCodec implementations meet the interface schema",
	}
	trusted = append(base, trusted...)
	trusted = append(trusted, leanCoverage(c.V.verifDir))
	var samples []interface{}
	n := 0
	for _, o := range c.obs {
		if n >= 6 {
			break
		}
		if o.Status == "unsat" && o.Raw == "" {
			g := o.Goal.SMT()
			if len(g) > 600 {
				g = g[:600] + "…"
			}
			samples = append(samples, map[string]interface{}{"obligation": o.Name, "what": o.Detail, "goal": g, "hypotheses": len(o.Hyps), "backend": o.Backend, "seconds": o.Seconds})
			n++
		}
	}
	if len(samples) == 0 {
		for _, o := range c.obs {
			samples = append(samples, map[string]interface{}{"obligation": o.Name, "what": o.Detail, "status": o.Status})
			if len(samples) >= 3 {
				break
			}
		}
	}
	ev := map[string]interface{}{
		"property_id": c.prop,
		"tier":        c.tier,
		"seed":        c.seed,
		"level":       "proof",
		"coverage": map[string]interface{}{
			"obligations": total,
			"no_overflow_obligations_64bit": func() int {
				n := 0
				for _, o := range c.obs {
					if strings.Contains(o.Name, "/no-overflow(") {
						n++
					}
				}
				return n
			}(),
			"obligations_of_the_property_plan": func() int {
				n := 0
				for _, o := range c.obs {
					if !o.Closure {
						n++
					}
				}
				return n
			}(),
			"obligations_of_the_contract_closure": func() int {
				n := 0
				for _, o := range c.obs {
					if o.Closure {
						n++
					}
				}
				return n
			}(),
			"discharged":               ok,
			"discharged_by_normaliser": trivial,
			"checker_cmd":              "gocv (weakest-precondition style VC generation over go/ssa of /repo's working tree) -> z3 4.8.12 | z3 5.1.0 | cvc5 1.0, first unsat",
			"trusted_base":             trusted,
			"functions_under_contract": funcs,
			"functions_count":          len(funcs),
			"by_backend":               by,
			"solver_time_s":            solveT,
			"generation_time_s":        gen,
			"slowest":                  slowest,
			"samples":                  samples,
			"bounded_standins":         c.bounded,
			"known_findings_reported":  known,
			"notes":                    c.notes,
			"explanation":              c.explanation(),
			"dropped_by_translation":   []string{"error identity (nil/non-nil only)", "out-of-memory and stack exhaustion", "bytes.Buffer capacity / consumed prefix", "float arithmetic (floats are moved as bit patterns)"},
		},
		"assumptions": assumptions,
		"wall_s":      time.Since(c.t0).Seconds(),
		"violations":  violations,
	}
	b, _ := json.MarshalIndent(ev, "", " ")
	os.MkdirAll(filepath.Join(c.outDir(), "evidence"), 0o755)
	os.WriteFile(filepath.Join(c.outDir(), "evidence", c.prop+".json"), b, 0o644)
}

func writeLoadFailure(vdir, prop, tier string, err error) int {
	path := filepath.Join(vdir, "evidence", "replay", prop+"-load.json")
	os.MkdirAll(filepath.Dir(path), 0o755)
	b, _ := json.MarshalIndent(map[string]interface{}{"property": prop, "obligation": "repository/loads-and-type-checks", "solver_output": err.Error()}, "", " ")
	os.WriteFile(path, b, 0o644)
	ev := map[string]interface{}{"property_id": prop, "tier": tier, "seed": seedFromEnv(), "level": "proof",
		"coverage": map[string]interface{}{"obligations": 1, "discharged": 0, "checker_cmd": "gocv", "trusted_base": []string{}, "explanation": "the repository did not load: " + err.Error()},
		"wall_s":   0.0, "violations": 1}
	eb, _ := json.MarshalIndent(ev, "", " ")
	os.WriteFile(filepath.Join(vdir, "evidence", prop+".json"), eb, 0o644)
	fmt.Printf("VIOLATION property=%s replay=%s obligation=repository/loads-and-type-checks no-failing-input-found\n", prop, path)
	return 1
}

var propExplanation = map[string]string{}

// explanation: what this check proves, from the claim registered in MANIFEST.json, and how the run is composed.
func (c *checkCtx) explanation() string {
	text := propExplanation[c.prop]
	if b, err := os.ReadFile(filepath.Join(c.V.verifDir, "MANIFEST.json")); err == nil {
		var m struct {
			Checks []struct {
				PropertyID string `json:"property_id"`
				Level      struct {
					Text string `json:"text"`
				} `json:"level_claimed"`
			} `json:"checks"`
		}
		if json.Unmarshal(b, &m) == nil {
			for _, ch := range m.Checks {
				if ch.PropertyID == c.prop && ch.Level.Text != "" {
					text = ch.Level.Text
				}
			}
		}
	}
	nOwn, nClo := 0, 0
	for _, o := range c.obs {
		if o.Closure {
			nClo++
		} else {
			nOwn++
		}
	}
	return strings.TrimSpace(text + fmt.Sprintf(" This run: %d obligations of the property's own plan (always put to the solvers) and %d of the closure — every contract the plan applies at a call site (library functions, checksum services, registry, discriminator tables, schema contracts of all message types) and the accounting of functions without contract are verified in the same run (DESIGN II.11–II.13); in the quick tier identical closure queries may reuse a stored unsat answer (by_backend: cache(...)).", nOwn, nClo))
}

// leanCoverage reports which named axioms of the prelude are proved in prelude/Prelude.lean (sequence
// fragment, core Lean) or prelude/Model.lean (scalar encoders, element kinds, boxing, CRC recursions:
// one concrete model) — both checked by setup.sh and in the thorough tier — and which remain trusted.
func leanCoverage(vdir string) string {
	pb, err1 := os.ReadFile(filepath.Join(vdir, "prelude", "prelude.smt2"))
	lb, err2 := os.ReadFile(filepath.Join(vdir, "prelude", "Prelude.lean"))
	mb, _ := os.ReadFile(filepath.Join(vdir, "prelude", "Model.lean"))
	if err1 != nil || err2 != nil {
		return "prelude axioms: none machine-checked (Prelude.lean missing)"
	}
	all := string(lb) + "\n" + string(mb)
	var unchecked []string
	n, k := 0, 0
	for _, f := range strings.Split(string(pb), ":named ")[1:] {
		name := strings.TrimRight(strings.Fields(f)[0], ")")
		n++
		if strings.Contains(all, "theorem "+name+" ") || strings.Contains(all, "theorem "+name+"\n") {
			k++
		} else {
			unchecked = append(unchecked, name)
		}
	}
	sort.Strings(unchecked)
	rest := "none"
	if len(unchecked) > 0 {
		rest = strings.Join(unchecked, ", ")
	}
	return fmt.Sprintf("prelude: %d of %d named axioms are Lean 4 theorems about List Int (prelude/Prelude.lean: sequences, bytes, folds; prelude/Model.lean: enc/dec as base-256 digits, element kinds, boxing, CRC recursions — one concrete model each); the transcription of the SMT axioms into Lean statements is by hand (same names, same guards); trusted as stated: %s", k, n, rest)
}
