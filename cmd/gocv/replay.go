package main

// Replay: after an obligation has failed, look for a concrete input on which the real code of /repo
// violates the property, with a harness injected by `go test -overlay` (nothing is written into /repo).

import (
	"encoding/json"
	"fmt"
	"os"
	"os/exec"
	"path/filepath"
	"sort"
	"strings"
)

type replayResult struct {
	Found    bool                     `json:"failing_input_found"`
	Harness  string                   `json:"harness"`
	Cmd      string                   `json:"cmd"`
	Findings []map[string]interface{} `json:"findings"`
	Output   string                   `json:"output,omitempty"`
	Note     string                   `json:"note,omitempty"`
}

var replayCache = map[string]*replayResult{}
var replayRuns int

func pkgOfFunc(V *Verifier, fn string) (pkgPath, typ string) {
	// "codec.ReadString[uint16]" | "szse_bin.SzseBinary.Encode" | "szse_bin.SzseBinary" | "szse_bin.init#1" | "lemma/..."
	if strings.HasPrefix(fn, "lemma/") || fn == "" {
		return "", ""
	}
	parts := strings.SplitN(fn, ".", 3)
	name := parts[0]
	if len(parts) > 1 {
		typ = parts[1]
		if i := strings.IndexAny(typ, "[/"); i >= 0 {
			typ = typ[:i]
		}
	}
	for path, p := range V.pkgs {
		if V.inRepo(path) && p.Pkg.Name() == name {
			// several directories may share a package name: prefer the one that declares the type / function
			if pkgPath == "" || p.Members[typ] != nil || strings.HasSuffix(path, "/messages") && V.pkgs[pkgPath].Members[typ] == nil {
				pkgPath = path
			}
		}
	}
	return
}

func (c *checkCtx) genMessagesHarness(pkgPath string) (string, error) {
	V := c.V
	tmpl, err := os.ReadFile(filepath.Join(V.verifDir, "replay", "messages_test.go.tmpl"))
	if err != nil {
		return "", err
	}
	p := V.pkgs[pkgPath]
	var ctors, dyns, frames []string
	cf := V.files[pkgPath]
	for _, mt := range V.messageTypes() {
		if mt.Pkg != p {
			continue
		}
		n := mt.Named.Obj().Name()
		ctors = append(ctors, fmt.Sprintf("\t%q: func() interface{} { return &%s{} },", n, n))
		ly := V.layoutFor(mt)
		if ly == nil || cf == nil {
			continue
		}
		var ds []string
		for _, d := range ly.Dyns {
			tb := cf.Tables[d.Table]
			if tb == nil {
				continue
			}
			var keys, types []string
			for _, e := range tb.Entries {
				keys = append(keys, e[0])
				types = append(types, fmt.Sprintf("%q", e[1]))
			}
			ds = append(ds, fmt.Sprintf("{Field: %q, Key: %q, Keys: []interface{}{%s}, Types: []string{%s}}", d.Field, d.Key, strings.Join(keys, ", "), strings.Join(types, ", ")))
		}
		if len(ds) > 0 {
			dyns = append(dyns, fmt.Sprintf("\t%q: {%s},", n, strings.Join(ds, ", ")))
		}
		if ly.Frame {
			frames = append(frames, fmt.Sprintf("\t%q: {Len: %q, Body: %q, Cksum: %q, Alg: %q, LE: %v},", n, ly.FrameInfo["len"], ly.FrameInfo["body"], ly.FrameInfo["cksum"], ly.FrameInfo["alg"], ly.Order == "LE"))
		}
	}
	sort.Strings(ctors)
	s := string(tmpl)
	s = strings.ReplaceAll(s, "{{PKG}}", p.Pkg.Name())
	s = strings.ReplaceAll(s, "{{CTORS}}", strings.Join(ctors, "\n"))
	s = strings.ReplaceAll(s, "{{DYNS}}", strings.Join(dyns, "\n"))
	s = strings.ReplaceAll(s, "{{FRAMES}}", strings.Join(frames, "\n"))
	return s, nil
}

func (c *checkCtx) replay(o *Obligation) (bool, interface{}) {
	V := c.V
	pkgPath, typ := pkgOfFunc(V, o.Func)
	if pkgPath == "" {
		return false, &replayResult{Note: "no replay harness for this obligation (lemma or abstract statement)"}
	}
	lp := V.lpkgs[pkgPath]
	if lp == nil || len(lp.GoFiles) == 0 {
		return false, &replayResult{Note: "package not found"}
	}
	dir := filepath.Dir(lp.GoFiles[0])
	rel, _ := filepath.Rel(V.repo, dir)
	isCodec := strings.HasSuffix(pkgPath, "/codec")
	key := pkgPath + "|" + typ
	if isCodec {
		key = pkgPath + "|" + typ
	}
	if r, ok := replayCache[key]; ok {
		return c.matches(r), r
	}
	if replayRuns >= 6 {
		return false, &replayResult{Note: "replay budget of this run exhausted (6 harness runs); see the other replay files of this run"}
	}
	replayRuns++
	var src string
	var err error
	harness := "messages_test.go.tmpl"
	if isCodec {
		harness = "codec_test.go.tmpl"
		b, e := os.ReadFile(filepath.Join(V.verifDir, "replay", harness))
		src, err = string(b), e
	} else {
		src, err = c.genMessagesHarness(pkgPath)
	}
	if err != nil {
		return false, &replayResult{Note: "cannot build harness: " + err.Error()}
	}
	hf := filepath.Join(c.cfg.scratch, fmt.Sprintf("replay%d_test.go", replayRuns))
	os.WriteFile(hf, []byte(src), 0o644)
	ov := filepath.Join(c.cfg.scratch, fmt.Sprintf("overlay%d.json", replayRuns))
	ob, _ := json.Marshal(map[string]interface{}{"Replace": map[string]string{filepath.Join(dir, "zz_verif_replay_test.go"): hf}})
	os.WriteFile(ov, ob, 0o644)
	outFile := filepath.Join(c.cfg.scratch, fmt.Sprintf("replay%d.json", replayRuns))
	race := ""
	if c.prop == "C19" || c.prop == "C20" {
		race = "-race "
	}
	cmdline := fmt.Sprintf("ulimit -v 8000000; go test -overlay %s -vet=off -count=1 %s-timeout 150s -run '^TestVerifReplay$' ./%s", ov, race, rel)
	cmd := exec.Command("bash", "-c", cmdline)
	cmd.Dir = V.repo
	types := typ
	if types == "" || strings.HasPrefix(types, "init") {
		types = "*"
	}
	cmd.Env = append(os.Environ(), "GOFLAGS=-mod=mod", "GOPROXY=off", "VERIF_REPLAY_PROP="+c.prop, "VERIF_REPLAY_TYPES="+types, "VERIF_REPLAY_FUNC="+typ, "VERIF_REPLAY_OUT="+outFile, fmt.Sprintf("VERIF_SEED=%d", c.seed+1))
	out, _ := cmd.CombinedOutput()
	res := &replayResult{Harness: "/verif/replay/" + harness, Cmd: "cd /repo && " + cmdline + "   (VERIF_REPLAY_PROP=" + c.prop + " VERIF_REPLAY_TYPES=" + types + ")"}
	if b, err := os.ReadFile(outFile); err == nil {
		var parsed struct {
			Findings []map[string]interface{} `json:"findings"`
		}
		json.Unmarshal(b, &parsed)
		res.Findings = parsed.Findings
	} else {
		s := string(out)
		if len(s) > 3000 {
			s = s[:3000]
		}
		res.Output = s
		for _, marker := range []string{"fatal error:", "panic:", "out of memory", "DATA RACE", "concurrent map"} {
			if strings.Contains(s, marker) {
				res.Findings = append(res.Findings, map[string]interface{}{"property": map[string]string{"out of memory": "C10", "DATA RACE": "C20", "concurrent map": "C20"}[marker], "what": "the test process aborted: " + marker, "observed": firstLines(s, marker, 6)})
				break
			}
		}
		if strings.Contains(s, "DATA RACE") {
			res.Findings = append(res.Findings, map[string]interface{}{"property": c.prop, "what": "the race detector reported a data race", "observed": firstLines(s, "DATA RACE", 12)})
		}
	}
	if strings.Contains(string(out), "DATA RACE") && len(res.Findings) == 0 {
		res.Findings = append(res.Findings, map[string]interface{}{"property": c.prop, "what": "the race detector reported a data race", "observed": firstLines(string(out), "DATA RACE", 12)})
	}
	res.Found = len(res.Findings) > 0
	replayCache[key] = res
	return c.matches(res), res
}

func firstLines(s, marker string, n int) string {
	i := strings.Index(s, marker)
	if i < 0 {
		i = 0
	}
	ls := strings.Split(s[i:], "\n")
	if len(ls) > n {
		ls = ls[:n]
	}
	return strings.Join(ls, "\n")
}

// matches: does the harness result contain a concrete violation of the property being checked?
func (c *checkCtx) matches(r *replayResult) bool {
	related := map[string][]string{
		"C01": {"C01", "C07", "C13", "C03"}, "C07": {"C07", "C01"}, "C15": {"C01", "C07", "C15"}, "C08": {"C08"}, "C09": {"C09", "C10"}, "C10": {"C10"},
		"C11": {"C11"}, "C02": {"C02", "C01", "C13"}, "C03": {"C03"}, "C12": {"C01", "C12"}, "C13": {"C13"}, "C14": {"C14"}, "C16": {"C16"},
		"C17": {"C17"}, "C18": {"C18"}, "C19": {"C19"}, "C20": {"C20"}, "C04": {"C04"}, "C05": {"C05"}, "C06": {"C06"},
	}
	for _, f := range r.Findings {
		p, _ := f["property"].(string)
		for _, q := range related[c.prop] {
			if p == q {
				return true
			}
		}
	}
	return false
}

func cmdReplay(args []string) int {
	if len(args) < 1 {
		fmt.Fprintln(os.Stderr, "usage: gocv replay <file>")
		return 2
	}
	b, err := os.ReadFile(args[0])
	if err != nil {
		fmt.Fprintln(os.Stderr, err)
		return 2
	}
	var m map[string]interface{}
	json.Unmarshal(b, &m)
	fmt.Printf("property:   %v\nobligation: %v\nproving:    %v\nstatus:     %v\nsolvers:    %v\n", m["property"], m["obligation"], m["what_is_being_proved"], m["status"], m["solver_output"])
	rb, _ := json.MarshalIndent(m["replay"], "", " ")
	fmt.Printf("replay against the real code:\n%s\n", rb)
	return 0
}
