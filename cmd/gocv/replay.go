package main

// Replay: after an obligation has failed, look for a concrete input on which the real code of /repo
// violates the property, with a harness injected by `go test -overlay` (nothing is written into /repo).

import (
	"encoding/json"
	"fmt"
	"os"
	"os/exec"
	"path/filepath"
	"regexp"
	"sort"
	"strings"
	"sync"
	"time"
)

type replayResult struct {
	Found    bool                     `json:"failing_input_found"`
	Harness  string                   `json:"harness"`
	Cmd      string                   `json:"cmd"`
	Findings []map[string]interface{} `json:"findings"`
	Output   string                   `json:"output,omitempty"`
	Iters    int                      `json:"iterations"`
	Schema   [2]int                   `json:"schema_checked_skipped"`
	Note     string                   `json:"note,omitempty"`
}

var replayCache = map[string]*replayResult{}
var replayRuns int
var replayDeadline time.Time

func pkgOfFunc(V *Verifier, fn string) (pkgPath, typ string) {
	// "codec.ReadString[uint16]" | "szse_bin.SzseBinary.Encode" | "szse_bin.SzseBinary" | "szse_bin.init#1" | "lemma/..."
	if strings.HasPrefix(fn, "lemma/") || fn == "" {
		return "", ""
	}
	parts := strings.SplitN(fn, ".", 3)
	name := parts[0]
	if len(parts) > 1 {
		typ = parts[1]
		if i := strings.IndexAny(typ, "[/"); i >= 0 {
			typ = typ[:i]
		}
	}
	for path, p := range V.pkgs {
		if V.inRepo(path) && p.Pkg.Name() == name {
			// several directories may share a package name: prefer the one that declares the type / function
			if pkgPath == "" || p.Members[typ] != nil || strings.HasSuffix(path, "/messages") && V.pkgs[pkgPath].Members[typ] == nil {
				pkgPath = path
			}
		}
	}
	return
}

func (c *checkCtx) genMessagesHarness(pkgPath string) (string, error) {
	V := c.V
	tmpl, err := os.ReadFile(filepath.Join(V.verifDir, "replay", "messages_test.go.tmpl"))
	if err != nil {
		return "", err
	}
	p := V.pkgs[pkgPath]
	var ctors, dyns, frames []string
	cf := V.files[pkgPath]
	for _, mt := range V.messageTypes() {
		if mt.Pkg != p {
			continue
		}
		n := mt.Named.Obj().Name()
		ctors = append(ctors, fmt.Sprintf("\t%q: func() interface{} { return &%s{} },", n, n))
		ly := V.layoutFor(mt)
		if ly == nil || cf == nil {
			continue
		}
		var ds []string
		for _, d := range ly.Dyns {
			tb := cf.Tables[d.Table]
			if tb == nil {
				continue
			}
			var keys, types []string
			for _, e := range tb.Entries {
				keys = append(keys, e[0])
				types = append(types, fmt.Sprintf("%q", e[1]))
			}
			ds = append(ds, fmt.Sprintf("{Field: %q, Key: %q, Keys: []interface{}{%s}, Types: []string{%s}}", d.Field, d.Key, strings.Join(keys, ", "), strings.Join(types, ", ")))
		}
		if len(ds) > 0 {
			dyns = append(dyns, fmt.Sprintf("\t%q: {%s},", n, strings.Join(ds, ", ")))
		}
		if ly.Frame {
			frames = append(frames, fmt.Sprintf("\t%q: {Len: %q, Body: %q, Cksum: %q, Alg: %q, LE: %v},", n, ly.FrameInfo["len"], ly.FrameInfo["body"], ly.FrameInfo["cksum"], ly.FrameInfo["alg"], ly.Order == "LE"))
		}
	}
	sort.Strings(ctors)
	var widths, fills []string
	if b, err := os.ReadFile(filepath.Join(V.verifDir, "contracts", "mirror", strings.TrimPrefix(pkgPath, modPath+"/"), "zz_contracts_verif.go")); err == nil {
		cur := ""
		per := map[string][]string{}
		reFix := regexp.MustCompile(`seg fixed\((\w+), (\d+), (\d+), ([LR])\)`)
		reList := regexp.MustCompile(`seg flat\(k_fix\((\d+), (\d+), ([LR])\), (\w+),`)
		reDyn := regexp.MustCompile(`^//@\s+dyn (\w+) by \w+ in \w+ fills`)
		seen := map[string]bool{}
		for _, ln := range strings.Split(string(b), "\n") {
			if strings.HasPrefix(ln, "//@ layout ") {
				cur = strings.Fields(ln)[2]
				continue
			}
			if cur == "" {
				continue
			}
			if m := reFix.FindStringSubmatch(ln); m != nil && !seen[cur+"."+m[1]] {
				seen[cur+"."+m[1]] = true
				per[cur] = append(per[cur], fmt.Sprintf("%q: {%s, %s, %v}", m[1], m[2], m[3], m[4] == "L"))
			}
			if m := reList.FindStringSubmatch(ln); m != nil && !seen[cur+"."+m[4]] {
				seen[cur+"."+m[4]] = true
				per[cur] = append(per[cur], fmt.Sprintf("%q: {%s, %s, %v}", m[4], m[1], m[2], m[3] == "L"))
			}
			if m := reDyn.FindStringSubmatch(ln); m != nil {
				fills = append(fills, fmt.Sprintf("\t%q: true,", cur+"."+m[1]))
			}
		}
		var ks []string
		for k := range per {
			ks = append(ks, k)
		}
		sort.Strings(ks)
		for _, k := range ks {
			widths = append(widths, fmt.Sprintf("\t%q: {%s},", k, strings.Join(per[k], ", ")))
		}
	}
	s := string(tmpl)
	s = strings.ReplaceAll(s, "{{WIDTHS}}", strings.Join(widths, "\n"))
	s = strings.ReplaceAll(s, "{{FILLS}}", strings.Join(fills, "\n"))
	s = strings.ReplaceAll(s, "{{LAYOUTS}}", V.harnessLayouts(pkgPath))
	s = strings.ReplaceAll(s, "{{PKG}}", p.Pkg.Name())
	s = strings.ReplaceAll(s, "{{CTORS}}", strings.Join(ctors, "\n"))
	s = strings.ReplaceAll(s, "{{DYNS}}", strings.Join(dyns, "\n"))
	s = strings.ReplaceAll(s, "{{FRAMES}}", strings.Join(frames, "\n"))
	return s, nil
}

// related: the properties a harness finding may carry to count as a concrete violation of the property being checked.
var relatedProps = map[string][]string{
	"C01": {"C01", "C07", "C13", "C03"}, "C07": {"C07", "C01"}, "C15": {"C15"}, "C08": {"C08"}, "C09": {"C09", "C10"}, "C10": {"C10"},
	"C11": {"C11"}, "C02": {"C02", "C01", "C13", "C03"}, "C03": {"C03"}, "C12": {"C01", "C12"}, "C13": {"C13"}, "C14": {"C14"}, "C16": {"C16"},
	"C17": {"C17"}, "C18": {"C18"}, "C19": {"C19"}, "C20": {"C20"}, "C04": {"C04"}, "C05": {"C05"}, "C06": {"C06"},
}

// runHarness injects one harness into one package directory and runs it against the real code.
func (c *checkCtx) runHarness(n int, pkgPath, typ string, seconds int) *replayResult {
	V := c.V
	lp := V.lpkgs[pkgPath]
	if lp == nil || len(lp.GoFiles) == 0 {
		return &replayResult{Note: "package not found"}
	}
	dir := filepath.Dir(lp.GoFiles[0])
	rel, _ := filepath.Rel(V.repo, dir)
	isCodec := strings.HasSuffix(pkgPath, "/codec")
	var src string
	var err error
	harness := "messages_test.go.tmpl"
	if isCodec {
		harness = "codec_test.go.tmpl"
		b, e := os.ReadFile(filepath.Join(V.verifDir, "replay", harness))
		src, err = string(b), e
	} else {
		src, err = c.genMessagesHarness(pkgPath)
	}
	if err != nil {
		return &replayResult{Note: "cannot build harness: " + err.Error()}
	}
	hf := filepath.Join(c.cfg.scratch, fmt.Sprintf("replay%d_test.go", n))
	os.WriteFile(hf, []byte(src), 0o644)
	ov := filepath.Join(c.cfg.scratch, fmt.Sprintf("overlay%d.json", n))
	ob, _ := json.Marshal(map[string]interface{}{"Replace": map[string]string{filepath.Join(dir, "zz_verif_replay_test.go"): hf}})
	os.WriteFile(ov, ob, 0o644)
	outFile := filepath.Join(c.cfg.scratch, fmt.Sprintf("replay%d.json", n))
	race := ""
	if c.prop == "C19" || c.prop == "C20" {
		race = "-race "
	}
	cmdline := fmt.Sprintf("ulimit -v 8000000; go test -overlay %s -vet=off -count=1 %s-timeout 150s -run '^TestVerifReplay$' ./%s", ov, race, rel)
	cmd := exec.Command("bash", "-c", cmdline)
	cmd.Dir = V.repo
	types := typ
	if types == "" || strings.HasPrefix(types, "init") {
		types = "*"
	}
	related := strings.Join(relatedProps[c.prop], ",")
	cmd.Env = append(os.Environ(), "GOFLAGS=-mod=mod", "GOPROXY=off", "VERIF_REPLAY_PROP="+c.prop, "VERIF_REPLAY_RELATED="+related, "VERIF_REPLAY_TYPES="+types, "VERIF_REPLAY_FUNC="+typ,
		"VERIF_REPLAY_OUT="+outFile, fmt.Sprintf("VERIF_SEED=%d", c.seed+1), fmt.Sprintf("VERIF_REPLAY_SECONDS=%d", seconds))
	out, _ := cmd.CombinedOutput()
	res := &replayResult{Harness: "/verif/replay/" + harness, Cmd: "cd /repo && " + cmdline + "   (VERIF_REPLAY_PROP=" + c.prop + " VERIF_REPLAY_RELATED=" + related + " VERIF_REPLAY_TYPES=" + types + " VERIF_REPLAY_FUNC=" + typ + ")"}
	if b, err := os.ReadFile(outFile); err == nil {
		var parsed struct {
			Findings []map[string]interface{} `json:"findings"`
			Iters    int                      `json:"iterations"`
			SC       int                      `json:"schema_checked"`
			SS       int                      `json:"schema_skipped"`
		}
		json.Unmarshal(b, &parsed)
		res.Findings = parsed.Findings
		res.Iters = parsed.Iters
		res.Schema = [2]int{parsed.SC, parsed.SS}
	} else {
		s := string(out)
		if len(s) > 3000 {
			s = s[:3000]
		}
		res.Output = s
		for _, marker := range []string{"test timed out", "fatal error:", "panic:", "out of memory", "DATA RACE", "concurrent map"} {
			if strings.Contains(s, marker) {
				pr := map[string]string{"out of memory": "C10", "DATA RACE": "C20", "concurrent map": "C20", "test timed out": "C09"}[marker]
				if pr == "" && (c.prop == "C09" || c.prop == "C17") {
					pr = c.prop
				}
				res.Findings = append(res.Findings, map[string]interface{}{"property": pr, "what": "the test process aborted: " + marker, "observed": firstLines(s, marker, 6)})
				break
			}
		}
	}
	if strings.Contains(string(out), "DATA RACE") {
		res.Findings = append(res.Findings, map[string]interface{}{"property": c.prop, "what": "the race detector reported a data race", "observed": firstLines(string(out), "DATA RACE", 12)})
	}
	res.Found = len(res.Findings) > 0
	return res
}

func (c *checkCtx) replay(o *Obligation) (bool, interface{}) {
	V := c.V
	pkgPath, typ := pkgOfFunc(V, o.Func)
	if pkgPath == "" {
		return false, &replayResult{Note: "no replay harness for this obligation (lemma or abstract statement)"}
	}
	if typ == "sweep" {
		typ = "" // every battery of the codec harness, then every type of every message package
	}
	if os.Getenv("VERIF_NOREPLAY") != "" {
		return false, &replayResult{Note: "replay switched off (VERIF_NOREPLAY; used by the must-fail selftest, which only needs the verdict)"}
	}
	isCodec := strings.HasSuffix(pkgPath, "/codec")
	key := pkgPath + "|" + typ
	if r, ok := replayCache[key]; ok {
		return c.matches(r), r
	}
	if replayDeadline.IsZero() {
		replayDeadline = time.Now().Add(180 * time.Second)
	}
	if replayRuns >= 6 || time.Now().After(replayDeadline) {
		return false, &replayResult{Note: "replay budget of this run exhausted (6 harness runs or 180 s); see the other replay files of this run"}
	}
	replayRuns++
	res := c.runHarness(replayRuns*10, pkgPath, typ, 40)
	if isCodec && !c.matches(res) {
		// a library function: every message type of every protocol module uses it — search them too (once per run)
		if r, ok := replayCache["*messages"]; ok {
			res = mergeReplay(res, r)
		} else {
			var pkgs []string
			for path := range V.pkgs {
				if V.inRepo(path) && strings.HasSuffix(path, "/messages") {
					pkgs = append(pkgs, path)
				}
			}
			sort.Strings(pkgs)
			results := make([]*replayResult, len(pkgs))
			var wg sync.WaitGroup
			for i, p := range pkgs {
				wg.Add(1)
				go func(i int, p string) {
					defer wg.Done()
					results[i] = c.runHarness(replayRuns*10+1+i, p, "*", 30)
				}(i, p)
			}
			wg.Wait()
			all := &replayResult{}
			for _, r := range results {
				all = mergeReplay(all, r)
			}
			replayCache["*messages"] = all
			res = mergeReplay(res, all)
		}
	}
	replayCache[key] = res
	return c.matches(res), res
}

func mergeReplay(a, b *replayResult) *replayResult {
	if b == nil {
		return a
	}
	out := &replayResult{Harness: a.Harness, Cmd: a.Cmd, Output: a.Output, Note: a.Note}
	out.Findings = append(append([]map[string]interface{}{}, a.Findings...), b.Findings...)
	if b.Cmd != "" {
		if out.Cmd != "" {
			out.Cmd += "\n"
			out.Harness += ", "
		}
		out.Cmd += b.Cmd
		out.Harness += b.Harness
	}
	out.Iters = a.Iters + b.Iters
	out.Schema = [2]int{a.Schema[0] + b.Schema[0], a.Schema[1] + b.Schema[1]}
	if b.Output != "" {
		out.Output += b.Output
	}
	out.Found = len(out.Findings) > 0
	return out
}

func firstLines(s, marker string, n int) string {
	i := strings.Index(s, marker)
	if i < 0 {
		i = 0
	}
	ls := strings.Split(s[i:], "\n")
	if len(ls) > n {
		ls = ls[:n]
	}
	return strings.Join(ls, "\n")
}

// matches: does the harness result contain a concrete violation of the property being checked?
func (c *checkCtx) matches(r *replayResult) bool {
	for _, f := range r.Findings {
		p, _ := f["property"].(string)
		for _, q := range relatedProps[c.prop] {
			if p == q {
				return true
			}
		}
	}
	return false
}

func cmdReplay(args []string) int {
	if len(args) < 1 {
		fmt.Fprintln(os.Stderr, "usage: gocv replay <file>")
		return 2
	}
	b, err := os.ReadFile(args[0])
	if err != nil {
		fmt.Fprintln(os.Stderr, err)
		return 2
	}
	var m map[string]interface{}
	json.Unmarshal(b, &m)
	fmt.Printf("property:   %v\nobligation: %v\nproving:    %v\nstatus:     %v\nsolvers:    %v\n", m["property"], m["obligation"], m["what_is_being_proved"], m["status"], m["solver_output"])
	rb, _ := json.MarshalIndent(m["replay"], "", " ")
	fmt.Printf("replay against the real code:\n%s\n", rb)
	return 0
}

// cmdHarness runs the replay harness directly (development aid; on the unchanged tree it must find nothing):
// gocv harness <Cnn> <obligation-function, e.g. codec.ReadString or szse_bin.NewOrder.Decode> [seconds]
func cmdHarness(args []string) int {
	if len(args) < 2 {
		fmt.Fprintln(os.Stderr, "usage: gocv harness <Cnn> <function> [seconds]")
		return 2
	}
	V, err := LoadVerifier(envOr("VERIF_REPO", "/repo"), envOr("VERIF_DIR", "/verif"))
	if err != nil {
		fmt.Fprintln(os.Stderr, err)
		return 2
	}
	c := &checkCtx{V: V, prop: args[0], tier: "quick", seed: seedFromEnv(), funcs: map[string]bool{}, encCache: map[string]*EncInfo{}}
	c.cfg = &solveCfg{timeout: 10, seed: c.seed, scratch: scratchDir(), parallel: 14}
	defer os.RemoveAll(c.cfg.scratch)
	found, res := c.replay(&Obligation{Func: args[1]})
	b, _ := json.MarshalIndent(res, "", " ")
	fmt.Printf("matching finding: %v\n%s\n", found, b)
	if found {
		return 1
	}
	return 0
}
