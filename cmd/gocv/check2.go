package main

import (
	"fmt"
	"go/types"
	"strings"

	"golang.org/x/tools/go/ssa"
)

// abstractLemmas: format-abstract consequences of the reader behaviours rt + re (+ safe: a run exists),
// proved once with E and canon uninterpreted and a run represented by its result constants.
func (c *checkCtx) abstractLemmas(names ...string) {
	E := func(x *Term) *Term { return App("absE", SSeq, x) }
	canon := func(x *Term) *Term { return App("abscanon", SBool, x) }
	// rt for the run with result (ok, val, rest) on input u:  forall x r. canon(x) && u == E(x) ++ r  ==>  ok && val == x && rest == r
	rt := func(u, ok, val, rest *Term) *Term {
		x, r := Var("x!a", SInt), Var("r!a", SSeq)
		pat := Cat(E(x), r)
		return Forall([]*Term{x, r}, Implies(And(canon(x), Eq(u, pat)), And(ok, Eq(val, x), Eq(rest, r))), pat)
	}
	re := func(u, ok, val, rest *Term) *Term {
		return Implies(ok, And(Eq(u, Cat(E(val), rest)), canon(val)))
	}
	for _, n := range names {
		switch n {
		case "trunc":
			v, k := Var("v", SInt), Var("k", SInt)
			ok1, val1, rest1 := Var("ok1", SBool), Var("val1", SInt), Var("rest1", SSeq)
			ok2, val2, rest2 := Var("ok2", SBool), Var("val2", SInt), Var("rest2", SSeq)
			u1 := Take(E(v), k)
			u2 := E(v)
			tail := Drop(E(v), k)
			rtInst := func(u, ok, val, rest, x, r *Term) *Term { // the instance (x, r) of rt, with cat(s, empty) = s applied
				return Implies(And(canon(x), Eq(u, Cat(E(x), r))), And(ok, Eq(val, x), Eq(rest, r)))
			}
			hyps := []*Term{canon(v), Le(IntC(0), k), Lt(k, Len(E(v))),
				re(u1, ok1, val1, rest1),                             // the run on the truncated input, if it succeeds, satisfies re
				rt(u2, ok2, val2, rest2),                             // a run on the full encoding (it exists: safe) satisfies rt for every ghost (x, r) ...
				rtInst(u2, ok2, val2, rest2, val1, Cat(rest1, tail)), // ... in particular for (val1, rest1 ++ tail)
				rtInst(u2, ok2, val2, rest2, v, Empty),               // ... and for (v, empty)
				Eq(u2, Cat(u1, tail)),
				Eq(Len(tail), Sub(Len(E(v)), k)),
			}
			c.obs = append(c.obs, &Obligation{Name: "lemma/trunc", Func: "lemma/trunc", Kind: "lemma", Props: []string{c.prop}, Hyps: hyps, Goal: Not(ok1),
				Hints:  []*Term{Cat(E(val1), Cat(rest1, tail)), tail},
				Detail: "from rt, re and the existence of a run: decoding a strict prefix of a valid encoding does not succeed (format-abstract)"})
			c.obs = append(c.obs, &Obligation{Name: "lemma/trunc/canary(hypotheses-satisfiable)", Func: "lemma/trunc", Kind: "canary", Canary: true, Hyps: hyps, Goal: False, Detail: "the hypotheses of the truncation lemma are not contradictory"})
		case "receiver_independent":
			u := Var("u", SSeq)
			ok1, val1, rest1 := Var("ok1", SBool), Var("val1", SInt), Var("rest1", SSeq)
			ok2, val2, rest2 := Var("ok2", SBool), Var("val2", SInt), Var("rest2", SSeq)
			hyps := []*Term{re(u, ok1, val1, rest1), rt(u, ok2, val2, rest2)}
			c.obs = append(c.obs, &Obligation{Name: "lemma/receiver_independent", Func: "lemma/receiver_independent", Kind: "lemma", Props: []string{c.prop}, Hyps: hyps,
				Goal:   Implies(ok1, And(ok2, Eq(val2, val1), wrapSeqEq(Eq(rest2, rest1)))),
				Hints:  []*Term{Cat(E(val1), rest1)},
				Detail: "two runs of a decoder on the same bytes from different receiver states: if one succeeds the other succeeds with the same message and the same remainder (from re of the first and rt of the second, which holds for an arbitrary receiver)"})
		}
	}
}

// VerifyTableFuncs verifies New...MessageBy...(key) and Registry...Factory(key, f) of a package
// against the contracts generated from its table blocks.
func (V *Verifier) VerifyTableFuncs(pkgPath string, props []string) []*Obligation {
	var out []*Obligation
	p := V.pkgs[pkgPath]
	for _, name := range V.sortedTableNames(pkgPath) {
		ti := V.tables[name]
		if ti.Factory == "" {
			out = append(out, mkOb(p.Pkg.Name()+"."+ti.Var+"/factory-function-present", props, False, nil, "a discriminator table has a look-up function", p.Pkg.Name()))
			continue
		}
		fn := p.Func(ti.Factory)
		g, _ := p.Members[ti.Var].(*ssa.Global)
		if fn == nil || g == nil || len(fn.Params) != 1 {
			continue
		}
		x := V.newExec(fn, nil, Subst{}, p.Pkg.Name()+"."+ti.Factory, "table")
		x.emitSafe = true
		x.props = props
		st := &State{env: map[ssa.Value]Value{}, heap: map[*Obj]*Content{}, alloc: IntC(0), entryOf: map[*ssa.BasicBlock]*State{}, variant: map[*ssa.BasicBlock]*Term{}, callOrd: map[string]int{}}
		kv := x.symValue(st, fn.Params[0].Type(), "key", "param:key")
		st.env[fn.Params[0]] = kv
		key := keyValueTerm(kv)
		dom, tag, ok := V.tableTerms(ti, key)
		if !ok {
			out = append(out, mkOb(p.Pkg.Name()+"."+ti.Factory+"/table-pinned", props, False, nil, "the table this function reads is pinned in the contract", p.Pkg.Name()))
			continue
		}
		// table invariant: the map holds exactly the table (its factories return fresh zero values of the tabled type)
		o := V.globalObj(st, x, g)
		ms := st.get(st.get(o).Val.(VMap).Obj).MV
		kb := x.box(st, kv)
		st.assume(Eq(mdom(ms, kb), dom))
		st.assume(Implies(dom, Eq(App("clos_tag", SInt, mval(ms, kb)), tag)))
		x.old = st.clone()
		x.onReturn = func(s *State, res []Value) {
			t := pathTag(s)
			en := errNilOf(res)
			x.oblige(s, "ensures", "registered-key-succeeds@"+t, Eq(en, dom), "err == nil exactly for registered keys")
			if len(res) == 2 {
				if r, ok := res[0].(VIface); ok {
					x.oblige(s, "ensures", "unregistered-gives-nil@"+t, Implies(Not(dom), r.IsNil), "an unregistered key yields no message")
					if r.Obj != nil {
						cc := s.get(r.Obj)
						x.oblige(s, "ensures", "registered-gives-pinned-type@"+t, Implies(dom, And(Not(r.IsNil), Eq(cc.Tag, tag), Eq(cc.MV, zeroMV(cc.Tag)), BoolC(r.Obj.Prov == "fresh"))), "a registered key yields a fresh zero value of the type pinned for it")
					} else {
						x.oblige(s, "ensures", "registered-gives-pinned-type@"+t, Not(dom), "a registered key yields a fresh zero value of the type pinned for it")
					}
				} else {
					x.oblige(s, "ensures", "result-is-message@"+t, False, "the look-up returns a message")
				}
			}
		}
		x.execAll(st)
		if x.returns == 0 {
			x.fail(st, "vacuity", "no-return-reached", "no path reaches a return")
		}
		out = append(out, x.obs...)
	}
	return out
}

var _ = types.Typ
var _ = fmt.Sprintf
var _ = strings.TrimSpace
