package main

import (
	"fmt"
	"os"
)

func main() {
	if len(os.Args) < 2 {
		fmt.Fprintln(os.Stderr, "usage: gocv <command> ...")
		os.Exit(2)
	}
	os.Exit(dispatch(os.Args[1], os.Args[2:]))
}
