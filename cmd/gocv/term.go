package main

// Spec-term IR: the logical language every contract, verification condition and
// lemma is expressed in. Three sorts: Int (mathematical integers; bytes, lengths,
// machine integers with explicit ranges, boxed references), Bool, Seq (finite
// sequences of Int, axiomatised in prelude.smt2).

import (
	"fmt"
	"math/big"
	"sort"
	"strings"
)

type Sort int

const (
	SInt Sort = iota
	SBool
	SSeq
)

func (s Sort) String() string { return [...]string{"Int", "Bool", "BSeq"}[s] }

type Term struct {
	Op   string // "const","var","app", or builtin op names
	Sort Sort
	Name string   // var / app name
	Val  *big.Int // const
	Args []*Term
	key  string
}

func (t *Term) Key() string {
	if t.key != "" {
		return t.key
	}
	var b strings.Builder
	switch t.Op {
	case "const":
		b.WriteString(t.Val.String())
	case "var":
		b.WriteString(t.Name)
	default:
		b.WriteString("(")
		if t.Op == "app" {
			b.WriteString(t.Name)
		} else {
			b.WriteString(t.Op)
		}
		for _, a := range t.Args {
			b.WriteString(" ")
			b.WriteString(a.Key())
		}
		b.WriteString(")")
	}
	t.key = b.String()
	return t.key
}

func (t *Term) String() string { return t.Key() }

func Same(a, b *Term) bool { return a == b || a.Key() == b.Key() }

// ---- constructors -------------------------------------------------------

func IntC(v int64) *Term         { return &Term{Op: "const", Sort: SInt, Val: big.NewInt(v)} }
func BigC(v *big.Int) *Term      { return &Term{Op: "const", Sort: SInt, Val: new(big.Int).Set(v)} }
func Pow2(n int) *Term           { return BigC(new(big.Int).Lsh(big.NewInt(1), uint(n))) }
func Var(n string, s Sort) *Term { return &Term{Op: "var", Sort: s, Name: n} }

var True = &Term{Op: "true", Sort: SBool}
var False = &Term{Op: "false", Sort: SBool}

func BoolC(b bool) *Term {
	if b {
		return True
	}
	return False
}

func (t *Term) IsConst() bool { return t.Op == "const" }
func (t *Term) IsTrue() bool  { return t.Op == "true" }
func (t *Term) IsFalse() bool { return t.Op == "false" }

func App(name string, s Sort, args ...*Term) *Term {
	return &Term{Op: "app", Name: name, Sort: s, Args: args}
}

func mk(op string, s Sort, args ...*Term) *Term { return &Term{Op: op, Sort: s, Args: args} }

// linear normal form for Int sums: const + Σ coef·atom
type lin struct {
	c     *big.Int
	coef  map[string]*big.Int
	atoms map[string]*Term
}

func newLin() *lin {
	return &lin{c: new(big.Int), coef: map[string]*big.Int{}, atoms: map[string]*Term{}}
}

func (l *lin) add(t *Term, k *big.Int) {
	switch {
	case t.Op == "const":
		l.c.Add(l.c, new(big.Int).Mul(k, t.Val))
	case t.Op == "+":
		for _, a := range t.Args {
			l.add(a, k)
		}
	case t.Op == "-" && len(t.Args) == 2:
		l.add(t.Args[0], k)
		l.add(t.Args[1], new(big.Int).Neg(k))
	case t.Op == "-" && len(t.Args) == 1:
		l.add(t.Args[0], new(big.Int).Neg(k))
	case t.Op == "*" && t.Args[0].Op == "const":
		l.add(t.Args[1], new(big.Int).Mul(k, t.Args[0].Val))
	case t.Op == "*" && t.Args[1].Op == "const":
		l.add(t.Args[0], new(big.Int).Mul(k, t.Args[1].Val))
	default:
		key := t.Key()
		if c, ok := l.coef[key]; ok {
			c.Add(c, k)
		} else {
			l.coef[key] = new(big.Int).Set(k)
			l.atoms[key] = t
		}
	}
}

func (l *lin) term() *Term {
	keys := make([]string, 0, len(l.coef))
	for k, c := range l.coef {
		if c.Sign() != 0 {
			keys = append(keys, k)
		}
	}
	sort.Strings(keys)
	var parts []*Term
	for _, k := range keys {
		c := l.coef[k]
		a := l.atoms[k]
		if c.Cmp(big.NewInt(1)) == 0 {
			parts = append(parts, a)
		} else {
			parts = append(parts, mk("*", SInt, BigC(c), a))
		}
	}
	if l.c.Sign() != 0 || len(parts) == 0 {
		parts = append(parts, BigC(l.c))
	}
	if len(parts) == 1 {
		return parts[0]
	}
	return mk("+", SInt, parts...)
}

func Add(a ...*Term) *Term {
	l := newLin()
	one := big.NewInt(1)
	for _, t := range a {
		l.add(t, one)
	}
	return l.term()
}

func Sub(a, b *Term) *Term {
	l := newLin()
	l.add(a, big.NewInt(1))
	l.add(b, big.NewInt(-1))
	return l.term()
}

func Mul(a, b *Term) *Term {
	if a.IsConst() && b.IsConst() {
		return BigC(new(big.Int).Mul(a.Val, b.Val))
	}
	if a.IsConst() || b.IsConst() {
		l := newLin()
		if a.IsConst() {
			l.add(b, a.Val)
		} else {
			l.add(a, b.Val)
		}
		return l.term()
	}
	return mk("*", SInt, a, b)
}

func floorDivMod(a, b *big.Int) (*big.Int, *big.Int) {
	// SMT-LIB div/mod (Euclidean for positive divisor)
	q, m := new(big.Int), new(big.Int)
	q.DivMod(a, b, m)
	return q, m
}

func Div(a, b *Term) *Term {
	if a.IsConst() && b.IsConst() && b.Val.Sign() > 0 {
		q, _ := floorDivMod(a.Val, b.Val)
		return BigC(q)
	}
	return mk("div", SInt, a, b)
}

func Mod(a, b *Term) *Term {
	if a.IsConst() && b.IsConst() && b.Val.Sign() > 0 {
		_, m := floorDivMod(a.Val, b.Val)
		return BigC(m)
	}
	// dec(o, w, s) lies in [0, 256^w) (ax_enc_dec; the engine only forms dec over w bytes): reducing it modulo
	// 256^w or a multiple is the identity, and mod (mod x m) m = mod x m
	if b.IsConst() && b.Val.Sign() > 0 {
		if a.Op == "app" && a.Name == "dec" && len(a.Args) == 3 && a.Args[1].IsConst() && a.Args[1].Val.IsInt64() {
			w := a.Args[1].Val.Int64()
			if w >= 1 && w <= 8 {
				lim := new(big.Int).Lsh(big.NewInt(1), uint(8*w))
				if b.Val.Cmp(lim) >= 0 {
					return a
				}
			}
		}
		if a.Op == "mod" && a.Args[1].IsConst() && a.Args[1].Val.Cmp(b.Val) == 0 {
			return a
		}
	}
	return mk("mod", SInt, a, b)
}

func Eq(a, b *Term) *Term {
	if a.Sort != b.Sort {
		panic(fmt.Sprintf("Eq sort mismatch: %v : %v  vs  %v : %v", a, a.Sort, b, b.Sort))
	}
	if Same(a, b) {
		return True
	}
	if a.IsConst() && b.IsConst() {
		return BoolC(a.Val.Cmp(b.Val) == 0)
	}
	if a.Sort == SBool {
		if a.IsTrue() {
			return b
		}
		if b.IsTrue() {
			return a
		}
		if a.IsFalse() {
			return Not(b)
		}
		if b.IsFalse() {
			return Not(a)
		}
	}
	if a.Sort == SInt {
		d := Sub(a, b)
		if d.IsConst() {
			return BoolC(d.Val.Sign() == 0)
		}
	}
	return mk("=", SBool, a, b)
}

func Neq(a, b *Term) *Term { return Not(Eq(a, b)) }

// linSign reports whether the linear form d (over non-negative atoms len(..)) is provably <= 0 or >= 0.
func linSign(d *Term) (nonpos, nonneg bool) {
	l := newLin()
	l.add(d, big.NewInt(1))
	nonpos, nonneg = l.c.Sign() <= 0, l.c.Sign() >= 0
	for k, c := range l.coef {
		if c.Sign() == 0 {
			continue
		}
		a := l.atoms[k]
		if !(a.Op == "app" && a.Name == "len") {
			return false, false
		}
		if c.Sign() > 0 {
			nonpos = false
		} else {
			nonneg = false
		}
	}
	return
}

func cmp(op string, a, b *Term) *Term {
	d := Sub(a, b)
	if !d.IsConst() {
		np, nn := linSign(d)
		l := newLin()
		l.add(d, big.NewInt(1))
		switch op {
		case "<=":
			if np {
				return True
			}
			if nn && l.c.Sign() > 0 {
				return False
			}
		case "<":
			if np && l.c.Sign() < 0 {
				return True
			}
			if nn {
				return False
			}
		}
	}
	if d.IsConst() {
		s := d.Val.Sign()
		switch op {
		case "<":
			return BoolC(s < 0)
		case "<=":
			return BoolC(s <= 0)
		}
	}
	return mk(op, SBool, a, b)
}

func Lt(a, b *Term) *Term { return cmp("<", a, b) }
func Le(a, b *Term) *Term { return cmp("<=", a, b) }
func Gt(a, b *Term) *Term { return cmp("<", b, a) }
func Ge(a, b *Term) *Term { return cmp("<=", b, a) }

func Not(a *Term) *Term {
	switch a.Op {
	case "true":
		return False
	case "false":
		return True
	case "not":
		return a.Args[0]
	case "<":
		return Le(a.Args[1], a.Args[0])
	case "<=":
		return Lt(a.Args[1], a.Args[0])
	}
	return mk("not", SBool, a)
}

func And(a ...*Term) *Term {
	var out []*Term
	seen := map[string]bool{}
	for _, t := range a {
		if t.IsTrue() {
			continue
		}
		if t.IsFalse() {
			return False
		}
		if t.Op == "and" {
			for _, x := range t.Args {
				if !seen[x.Key()] {
					seen[x.Key()] = true
					out = append(out, x)
				}
			}
			continue
		}
		if !seen[t.Key()] {
			seen[t.Key()] = true
			out = append(out, t)
		}
	}
	if len(out) == 0 {
		return True
	}
	if len(out) == 1 {
		return out[0]
	}
	return mk("and", SBool, out...)
}

func Or(a ...*Term) *Term {
	var out []*Term
	for _, t := range a {
		if t.IsFalse() {
			continue
		}
		if t.IsTrue() {
			return True
		}
		out = append(out, t)
	}
	if len(out) == 0 {
		return False
	}
	if len(out) == 1 {
		return out[0]
	}
	return mk("or", SBool, out...)
}

func Implies(a, b *Term) *Term {
	if a.IsTrue() {
		return b
	}
	if a.IsFalse() || b.IsTrue() {
		return True
	}
	return mk("=>", SBool, a, b)
}

func Ite(c, a, b *Term) *Term {
	if c.IsTrue() {
		return a
	}
	if c.IsFalse() {
		return b
	}
	if Same(a, b) {
		return a
	}
	return mk("ite", a.Sort, c, a, b)
}

// ---- sequences ----------------------------------------------------------

var Empty = App("empty", SSeq)

func IsEmptySeq(t *Term) bool { return t.Op == "app" && t.Name == "empty" }

// Cat builds a right-nested concatenation, dropping empties and flattening.
func Cat(parts ...*Term) *Term {
	var flat []*Term
	var walk func(t *Term)
	walk = func(t *Term) {
		if t.Op == "app" && t.Name == "cat" {
			walk(t.Args[0])
			walk(t.Args[1])
			return
		}
		if IsEmptySeq(t) {
			return
		}
		flat = append(flat, t)
	}
	for _, p := range parts {
		if p.Sort != SSeq {
			panic("Cat of non-seq " + p.Key())
		}
		walk(p)
	}
	if len(flat) == 0 {
		return Empty
	}
	r := flat[len(flat)-1]
	for i := len(flat) - 2; i >= 0; i-- {
		r = App("cat", SSeq, flat[i], r)
	}
	return r
}

// Segs returns the flattened segments of a (right-nested) concatenation.
func Segs(t *Term) []*Term {
	var out []*Term
	for t.Op == "app" && t.Name == "cat" {
		out = append(out, Segs(t.Args[0])...)
		t = t.Args[1]
	}
	if !IsEmptySeq(t) {
		out = append(out, t)
	}
	return out
}

// SynLen returns a syntactic length for well-known constructors, or nil.
// lenHints records the known length of fresh sequence symbols (set where the symbol is introduced
// together with the matching assumption len(sym) == n).
var lenHints = map[string]*Term{}

func SynLen(t *Term) *Term {
	if t.Op == "var" {
		if l, ok := lenHints[t.Name]; ok {
			return l
		}
		return nil
	}
	if t.Op != "app" {
		return nil
	}
	switch t.Name {
	case "rep":
		return t.Args[1] // constructors only build rep with a non-negative count
	case "fixed":
		return t.Args[1] // field widths are non-negative (requires of every fixed-width primitive)
	case "empty":
		return IntC(0)
	case "unit":
		return IntC(1)
	case "enc":
		return t.Args[1]
	case "cat":
		a, b := SynLen(t.Args[0]), SynLen(t.Args[1])
		if a != nil && b != nil {
			return Add(a, b)
		}
	}
	return nil
}

func Len(s *Term) *Term {
	if l := SynLen(s); l != nil {
		return l
	}
	if s.Op == "app" && s.Name == "cat" {
		return Add(Len(s.Args[0]), Len(s.Args[1]))
	}
	return App("len", SInt, s)
}

func At(s, i *Term) *Term { return App("at", SInt, s, i) }
func Unit(x *Term) *Term  { return App("unit", SSeq, x) }
func Rep(b, n *Term) *Term {
	if n.IsConst() && n.Val.Sign() == 0 {
		return Empty
	}
	return App("rep", SSeq, b, n)
}

// Take / Drop simplify against the syntactic segment structure when lengths line up.
func Take(s, n *Term) *Term {
	if n.IsConst() && n.Val.Sign() == 0 {
		return Empty
	}
	if Same(Len(s), n) {
		return s
	}
	segs := Segs(s)
	acc := IntC(0)
	for i, sg := range segs {
		acc = Add(acc, Len(sg))
		if Same(acc, n) {
			return Cat(segs[:i+1]...)
		}
	}
	return App("take", SSeq, s, n)
}

func Drop(s, n *Term) *Term {
	if n.IsConst() && n.Val.Sign() == 0 {
		return s
	}
	if Same(Len(s), n) {
		return Empty
	}
	segs := Segs(s)
	acc := IntC(0)
	for i, sg := range segs {
		acc = Add(acc, Len(sg))
		if Same(acc, n) {
			return Cat(segs[i+1:]...)
		}
	}
	if s.Op == "app" && s.Name == "drop" {
		return App("drop", SSeq, s.Args[0], Add(s.Args[1], n))
	}
	return App("drop", SSeq, s, n)
}

// Slice(s,lo,hi) = take(drop(s,lo),hi-lo)
func SliceT(s, lo, hi *Term) *Term { return Take(Drop(s, lo), Sub(hi, lo)) }

// Splice replaces len(t) elements of s starting at pos by t.
func Splice(s, pos, t *Term) *Term {
	segs := Segs(s)
	acc := IntC(0)
	for i, sg := range segs {
		if Same(acc, pos) && Same(Len(sg), Len(t)) {
			out := append([]*Term{}, segs[:i]...)
			out = append(out, t)
			out = append(out, segs[i+1:]...)
			return Cat(out...)
		}
		acc = Add(acc, Len(sg))
	}
	return Cat(Take(s, pos), t, Drop(s, Add(pos, Len(t))))
}

// ---- substitution / traversal ------------------------------------------

func SubstT(t *Term, m map[string]*Term) *Term {
	if len(m) == 0 {
		return t
	}
	switch t.Op {
	case "const", "true", "false":
		return t
	case "var":
		if r, ok := m[t.Name]; ok {
			return r
		}
		return t
	}
	args := make([]*Term, len(t.Args))
	ch := false
	for i, a := range t.Args {
		args[i] = SubstT(a, m)
		if args[i] != a {
			ch = true
		}
	}
	if !ch {
		return t
	}
	return rebuild(t, args)
}

func rebuild(t *Term, args []*Term) *Term {
	switch t.Op {
	case "+":
		return Add(args...)
	case "-":
		if len(args) == 2 {
			return Sub(args[0], args[1])
		}
		return Sub(IntC(0), args[0])
	case "*":
		return Mul(args[0], args[1])
	case "div":
		return Div(args[0], args[1])
	case "mod":
		return Mod(args[0], args[1])
	case "=":
		return Eq(args[0], args[1])
	case "<":
		return Lt(args[0], args[1])
	case "<=":
		return Le(args[0], args[1])
	case "not":
		return Not(args[0])
	case "and":
		return And(args...)
	case "or":
		return Or(args...)
	case "=>":
		return Implies(args[0], args[1])
	case "ite":
		return Ite(args[0], args[1], args[2])
	case "app":
		switch t.Name {
		case "cat":
			return Cat(args...)
		case "len":
			return Len(args[0])
		case "take":
			return Take(args[0], args[1])
		case "drop":
			return Drop(args[0], args[1])
		}
		return &Term{Op: "app", Name: t.Name, Sort: t.Sort, Args: args}
	case "forall", "exists":
		return &Term{Op: t.Op, Sort: SBool, Name: t.Name, Args: args}
	}
	return &Term{Op: t.Op, Name: t.Name, Sort: t.Sort, Args: args, Val: t.Val}
}

// Forall builds a quantified formula; bound variables are "var" terms.
// Name carries an optional SMT pattern annotation (already rendered).
func Forall(vars []*Term, body *Term, pattern ...*Term) *Term {
	args := append([]*Term{body}, vars...)
	t := &Term{Op: "forall", Sort: SBool, Args: args}
	if len(pattern) > 0 {
		// each pattern is an alternative trigger
		var ps []string
		for _, p := range pattern {
			ps = append(ps, p.SMT())
		}
		t.Name = strings.Join(ps, "\x00")
	}
	return t
}

func FreeVars(t *Term, out map[string]*Term) {
	switch t.Op {
	case "var":
		out[t.Name] = t
	case "forall", "exists":
		inner := map[string]*Term{}
		FreeVars(t.Args[0], inner)
		for _, v := range t.Args[1:] {
			delete(inner, v.Name)
		}
		for k, v := range inner {
			out[k] = v
		}
	default:
		for _, a := range t.Args {
			FreeVars(a, out)
		}
	}
}

func CollectApps(t *Term, out map[string]*Term) {
	if t.Op == "app" {
		if _, ok := out[t.Name]; !ok {
			out[t.Name] = t
		}
	}
	for _, a := range t.Args {
		CollectApps(a, out)
	}
}

// ---- SMT-LIB printing ---------------------------------------------------

func smtName(n string) string {
	ok := true
	for _, r := range n {
		if !(r == '_' || r == '.' || r == '!' || r == '$' || r >= '0' && r <= '9' || r >= 'a' && r <= 'z' || r >= 'A' && r <= 'Z') {
			ok = false
		}
	}
	if ok {
		return n
	}
	return "|" + strings.ReplaceAll(n, "|", "!") + "|"
}

func (t *Term) SMT() string {
	switch t.Op {
	case "const":
		if t.Val.Sign() < 0 {
			return "(- " + new(big.Int).Neg(t.Val).String() + ")"
		}
		return t.Val.String()
	case "var":
		return smtName(t.Name)
	case "true", "false":
		return t.Op
	case "forall", "exists":
		var b strings.Builder
		b.WriteString("(" + t.Op + " (")
		for _, v := range t.Args[1:] {
			fmt.Fprintf(&b, "(%s %s)", smtName(v.Name), v.Sort)
		}
		b.WriteString(") ")
		if t.Name != "" {
			b.WriteString("(! " + t.Args[0].SMT())
			for _, p := range strings.Split(t.Name, "\x00") {
				b.WriteString(" :pattern (" + p + ")")
			}
			b.WriteString(")")
		} else {
			b.WriteString(t.Args[0].SMT())
		}
		b.WriteString(")")
		return b.String()
	}
	head := t.Op
	if t.Op == "app" {
		head = smtName(t.Name)
		if len(t.Args) == 0 {
			return head
		}
	}
	var b strings.Builder
	b.WriteString("(" + head)
	for _, a := range t.Args {
		b.WriteString(" ")
		b.WriteString(a.SMT())
	}
	b.WriteString(")")
	return b.String()
}
