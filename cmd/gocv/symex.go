package main

// Forward symbolic execution of go/ssa function bodies (engine E1): strongest post-conditions
// along every path, implicit safety obligations at every instruction, loops cut at their
// invariants, calls replaced by callee contracts.

import (
	"fmt"
	"go/constant"
	"go/token"
	"go/types"
	"math/big"
	"sort"
	"strings"

	"golang.org/x/tools/go/ssa"
)

type loopInfo struct {
	header  *ssa.BasicBlock
	ordinal int
	blocks  map[*ssa.BasicBlock]bool
	spec    *LoopSpec
}

type Exec struct {
	V              *Verifier
	fn             *ssa.Function
	sigma          Subst
	fc             *FuncContract
	run            string // "safe" or behaviour name
	beh            *Behavior
	inst           string // display name with instantiation
	obs            []*Obligation
	loops          map[*ssa.BasicBlock]*loopInfo
	names          map[string]Value // contract-visible names: params, ghosts
	ghosts         map[string]*Term
	holes          map[string]string
	old            *State
	onReturn       func(st *State, results []Value)
	emitSafe       bool
	props          []string
	paths          int
	returns        int
	unsupported    []string
	noLoopCheck    bool
	maxPaths       int
	pendingForks   []fork
	callNo         map[ssa.Instruction]int
	assumeOK       func(st *State, fc *FuncContract, in ssa.Instruction, hyp *Term)
	assumeBeh      func(st *State, fc *FuncContract, b *Behavior, in ssa.Instruction, hyp *Term)
	onCall         func(st *State, rec *CallRecord)
	onAcquire      func(st *State, guarded *Obj)
	onRelease      func(st *State, mu *Obj)
	onAcquireState func(st *State, guarded *Obj)
	isCallee       bool
	rtMode         bool
	phiProv        map[*ssa.Phi]string
	inlineDepth    int
	noAcqLimit     bool // init runs several registry operations one after the other
	pkgForTags     *ssa.Package
	trackWrites    bool
}

func (x *Exec) fail(st *State, kind, name, detail string) {
	x.oblige(st, kind, name, False, detail)
}

// chainGoal decides extends / suffixof goals by following the skolem equations
// (old == piece ++ new, new == old ++ piece) that the callee frames put into the path condition.
func chainGoal(st *State, g *Term) *Term {
	if g.Op == "and" {
		out := make([]*Term, len(g.Args))
		for i, a := range g.Args {
			out[i] = chainGoal(st, a)
		}
		return And(out...)
	}
	if !(g.Op == "app" && (g.Name == "extends" || g.Name == "suffixof")) {
		return g
	}
	a, b := g.Args[0], g.Args[1]
	// equalities of the path condition, as an adjacency list
	eqs := map[string][]*Term{}
	terms := map[string]*Term{}
	for _, p := range st.pc {
		if p.Op == "=" && p.Args[0].Sort == SSeq {
			for _, side := range []int{0, 1} {
				k := p.Args[side].Key()
				eqs[k] = append(eqs[k], p.Args[1-side])
				terms[k] = p.Args[side]
			}
		}
	}
	seen := map[string]bool{}
	frontier := []*Term{b}
	if g.Name == "extends" {
		frontier = []*Term{a}
		a, b = b, a // walk from the new content back to the old one: new == old ++ piece
	}
	for steps := 0; len(frontier) > 0 && steps < 2000; steps++ {
		cur := frontier[0]
		frontier = frontier[1:]
		if seen[cur.Key()] {
			continue
		}
		seen[cur.Key()] = true
		if Same(cur, a) {
			return True
		}
		sg := Segs(cur)
		if g.Name == "suffixof" {
			// cur == piece ++ next : next is a suffix of cur
			if len(sg) >= 2 && sg[0].Op == "var" && strings.HasPrefix(sg[0].Name, "piece!") {
				frontier = append(frontier, Cat(sg[1:]...))
			}
			// any structured description  X ++ next  also makes next a suffix
			if len(sg) >= 2 {
				frontier = append(frontier, sg[len(sg)-1])
			}
			if cur.Op == "app" && cur.Name == "drop" {
				// drop(v, n) is a suffix of v: continue from everything known about drop(v,n) itself
			}
		} else {
			// cur == old ++ piece : old is a prefix of cur
			if len(sg) >= 2 && sg[len(sg)-1].Op == "var" && strings.HasPrefix(sg[len(sg)-1].Name, "piece!") {
				frontier = append(frontier, Cat(sg[:len(sg)-1]...))
			}
			if len(sg) >= 2 {
				frontier = append(frontier, Cat(sg[:len(sg)-1]...))
			}
		}
		for _, o := range eqs[cur.Key()] {
			frontier = append(frontier, o)
		}
		// v == ... where v's suffix/prefix is reached through drop / take terms defined on it
		for k, t := range terms {
			_ = k
			if g.Name == "suffixof" && t.Op == "app" && t.Name == "drop" && Same(t.Args[0], cur) {
				frontier = append(frontier, t)
			}
			if g.Name == "extends" && t.Op == "app" && t.Name == "take" && Same(t.Args[0], cur) {
				frontier = append(frontier, t)
			}
		}
	}
	return g
}

// wrapSeqEq marks top-level sequence equalities of a goal for extensional reasoning.
func wrapSeqEq(g *Term) *Term {
	if g.Op == "app" && (g.Name == "extends" || g.Name == "suffixof") {
		a, b := g.Args[0], g.Args[1]
		if g.Name == "extends" {
			sa, sb := Segs(a), Segs(b)
			if len(sa) >= len(sb) {
				ok := true
				for i := range sb {
					if !Same(sa[i], sb[i]) {
						ok = false
					}
				}
				if ok {
					return True
				}
			}
			return And(Le(Len(b), Len(a)), App("eqseq", SBool, Take(a, Len(b)), b))
		}
		sa, sb := Segs(a), Segs(b)
		if len(sb) >= len(sa) {
			ok := true
			for i := range sa {
				if !Same(sa[len(sa)-1-i], sb[len(sb)-1-i]) {
					ok = false
				}
			}
			if ok {
				return True
			}
		}
		return And(Le(Len(a), Len(b)), App("eqseq", SBool, Drop(b, Sub(Len(b), Len(a))), a))
	}
	switch g.Op {
	case "=":
		if g.Args[0].Sort == SSeq {
			return App("eqseq", SBool, g.Args[0], g.Args[1])
		}
	case "and":
		out := make([]*Term, len(g.Args))
		for i, a := range g.Args {
			out[i] = wrapSeqEq(a)
		}
		return mk("and", SBool, out...)
	case "=>":
		return mk("=>", SBool, g.Args[0], wrapSeqEq(g.Args[1]))
	}
	return g
}

// oblige records a proof obligation under the current path condition.
func (x *Exec) oblige(st *State, kind, name string, goal *Term, detail string) {
	if kind == "safe" && !x.emitSafe {
		return
	}
	goal = chainGoal(st, goal)
	goal = wrapSeqEq(goal)
	o := &Obligation{
		Name:   x.inst + "/" + x.run + "/" + name,
		Func:   x.inst,
		Kind:   kind,
		Props:  x.props,
		Hyps:   append([]*Term{}, st.pc...),
		Goal:   goal,
		Detail: detail,
	}
	x.obs = append(x.obs, o)
}

func (x *Exec) unsupportedAt(st *State, what string) {
	x.unsupported = append(x.unsupported, what)
	o := &Obligation{Name: x.inst + "/" + x.run + "/subset(" + what + ")", Func: x.inst, Kind: "subset", Props: x.props,
		Hyps: append([]*Term{}, st.pc...), Goal: False, Detail: "construct outside the verified subset: " + what}
	x.obs = append(x.obs, o)
	st.dead = true
}

// ---------------------------------------------------------------- value helpers

func (x *Exec) tinfo(t types.Type) (TypeInfo, bool) { return basicInfo(x.resolve(t)) }

func (x *Exec) zeroValue(t types.Type, st *State) Value {
	t = x.resolve(t)
	if ti, ok := basicInfo(t); ok {
		switch ti.Kind {
		case "bool":
			return VBool{False}
		case "string":
			return VStr{Empty}
		}
		return VInt{IntC(0)}
	}
	switch u := t.Underlying().(type) {
	case *types.Slice:
		return VSlice{Arr: x.newArray(st, u.Elem(), Empty, "nilslice", "fresh"), Lo: IntC(0), Hi: IntC(0), Cap: IntC(0), IsNil: True, Elem: u.Elem()}
	case *types.Pointer:
		return VPtr{Obj: nil, IsNil: True}
	case *types.Interface:
		if isErrorType(t) {
			return VErr{True}
		}
		if isCodecInterface(t) {
			return VIface{IsNil: True}
		}
		return VBox{IsNil: True}
	case *types.Signature:
		return VFunc{IsNil: True}
	case *types.Map:
		return VMap{}
	}
	return VOpaque{Why: "zero of " + t.String()}
}

func (x *Exec) newArray(st *State, elem types.Type, content *Term, name, prov string) *Obj {
	o := newObj("array", elem, name, prov)
	st.heap[o] = &Content{Seq: content}
	return o
}

// symValue builds an arbitrary (symbolic) value of type t; facts about it go into the path condition.
func (x *Exec) symValue(st *State, t types.Type, name, prov string) Value {
	t = x.resolve(t)
	if ti, ok := basicInfo(t); ok {
		switch ti.Kind {
		case "bool":
			return VBool{FreshBool(name)}
		case "string":
			s := FreshSeq(name)
			st.assume(App("bytes", SBool, s))
			return VStr{s}
		}
		v := FreshInt(name)
		st.assume(inRange(ti, v))
		return VInt{v}
	}
	if isErrorType(t) {
		return VErr{FreshBool(name + ".isnil")}
	}
	if isBytesBuffer(t) {
		o := newObj("buffer", t, name, prov)
		u := FreshSeq(name + ".u")
		st.assume(App("bytes", SBool, u))
		st.heap[o] = &Content{Seq: u}
		return VPtr{Obj: o, IsNil: FreshBool(name + ".isnil")}
	}
	switch u := t.Underlying().(type) {
	case *types.Slice:
		c := FreshSeq(name)
		x.assumeElems(st, u.Elem(), c)
		arr := x.newArray(st, u.Elem(), c, name, prov)
		cp := FreshInt(name + ".cap")
		st.assume(Le(Len(c), cp))
		return VSlice{Arr: arr, Lo: IntC(0), Hi: Len(c), Cap: cp, IsNil: FreshBool(name + ".isnil"), Elem: u.Elem()}
	case *types.Pointer:
		if hasCodecMethods(u.Elem()) {
			o := newObj("dyn", u.Elem(), name, prov)
			st.heap[o] = &Content{Tag: tagOf(u.Elem()), MV: FreshInt(name + ".mv")}
			return VPtr{Obj: o, IsNil: FreshBool(name + ".isnil")}
		}
		if _, ok := u.Elem().Underlying().(*types.Struct); ok {
			o := newObj("struct", u.Elem(), name, prov)
			st.heap[o] = &Content{Fields: map[int]Value{}}
			return VPtr{Obj: o, IsNil: FreshBool(name + ".isnil")}
		}
		o := newObj("cell", u.Elem(), name, prov)
		st.heap[o] = &Content{Val: x.symValue(st, u.Elem(), name+".*", prov)}
		return VPtr{Obj: o, IsNil: FreshBool(name + ".isnil")}
	case *types.Interface:
		if isCodecInterface(t) {
			o := newObj("dyn", t, name, prov)
			st.heap[o] = &Content{Tag: FreshInt(name + ".tag"), MV: FreshInt(name + ".mv")}
			return VIface{IsNil: FreshBool(name + ".isnil"), Obj: o}
		}
		return VBox{Inner: VOpaque{Why: "symbolic interface " + name, T: FreshInt(name)}, Type: nil, IsNil: FreshBool(name + ".isnil")}
	case *types.Signature:
		return VFunc{IsNil: FreshBool(name + ".isnil"), TagOf: nil}
	case *types.Map:
		m := newObj("map", t, name, prov)
		st.heap[m] = &Content{MV: FreshInt(name + ".state")}
		return VMap{m}
	case *types.Struct:
		if hasCodecMethods(t) {
			o := newObj("dyn", t, name, prov)
			st.heap[o] = &Content{Tag: tagOf(t), MV: FreshInt(name + ".mv")}
			return VPtr{Obj: o, IsNil: False}
		}
	}
	// type parameter standing for a message part (K BinaryCodec)
	if tp, ok := t.(*types.TypeParam); ok && isCodecInterface(tp.Constraint()) {
		o := newObj("dyn", t, name, prov)
		st.heap[o] = &Content{Tag: x.tagOfType(t), MV: FreshInt(name + ".mv")}
		return VIface{IsNil: False, Obj: o}
	}
	return VOpaque{Why: "symbolic " + t.String(), T: FreshInt(name)}
}

// tagOfType: the dynamic type tag of values of static type t (a message pointer type or a
// type parameter constrained by BinaryCodec).
func (x *Exec) tagOfType(t types.Type) *Term {
	t = x.resolve(t)
	if tp, ok := t.(*types.TypeParam); ok {
		return App("tag_param_"+tp.Obj().Name(), SInt)
	}
	return tagOf(t)
}

// assumeElems states the typed-memory invariant of an array of elem held as Seq c.
func (x *Exec) assumeElems(st *State, elem types.Type, c *Term) {
	if ti, ok := x.tinfo(elem); ok && ti.Kind != "string" && ti.Kind != "bool" {
		if ti.Kind == "uint" && ti.Width == 1 {
			st.assume(App("bytes", SBool, c))
			return
		}
		j := Var("j!e", SInt)
		at := At(c, j)
		st.assume(Forall([]*Term{j}, Implies(And(Le(IntC(0), j), Lt(j, Len(c))), inRange(ti, at)), at))
	}
}

// box / unbox: array elements are Ints.
func (x *Exec) box(st *State, v Value) *Term {
	switch v := v.(type) {
	case VInt:
		return v.T
	case VBool:
		return Ite(v.T, IntC(1), IntC(0))
	case VStr:
		return App("sbox", SInt, v.T)
	case VPtr:
		if v.Obj != nil && v.Obj.Kind == "dyn" {
			return st.get(v.Obj).MV
		}
	case VIface:
		if v.Obj != nil {
			return st.get(v.Obj).MV
		}
	}
	return FreshInt("boxed")
}

func (x *Exec) unbox(st *State, t *Term, typ types.Type, name string) Value {
	typ = x.resolve(typ)
	if ti, ok := basicInfo(typ); ok {
		switch ti.Kind {
		case "bool":
			return VBool{Neq(t, IntC(0))}
		case "string":
			s := App("sunbox", SSeq, t)
			st.assume(App("bytes", SBool, s))
			return VStr{s}
		}
		st.assume(inRange(ti, t))
		return VInt{t}
	}
	if p, ok := typ.Underlying().(*types.Pointer); ok && hasCodecMethods(p.Elem()) {
		o := newObj("dyn", p.Elem(), name, "elem")
		st.heap[o] = &Content{Tag: tagOf(p.Elem()), MV: t}
		return VPtr{Obj: o, IsNil: App("elemnil", SBool, t)}
	}
	if tp, ok := typ.(*types.TypeParam); ok && isCodecInterface(tp.Constraint()) {
		o := newObj("dyn", typ, name, "elem")
		st.heap[o] = &Content{Tag: x.tagOfType(typ), MV: t}
		return VIface{IsNil: App("elemnil", SBool, t), Obj: o}
	}
	return VOpaque{Why: "element of " + typ.String(), T: t}
}

func (x *Exec) sliceContent(st *State, v VSlice) *Term {
	if v.Arr != nil && v.Arr.Kind == "buffer" && v.Epoch != st.get(v.Arr).Epoch && x.fn != nil {
		x.obligeProps(st, "safe", "stale-buffer-view(read)", False, "slice from buf.Bytes() read after the buffer was modified (the model of the read is only valid for a live view)", x.props)
	}
	c := st.get(v.Arr).Seq
	if c == nil {
		c = Empty
	}
	return SliceT(c, v.Lo, v.Hi)
}

func sliceLen(v VSlice) *Term { return Sub(v.Hi, v.Lo) }

func (x *Exec) intOf(v Value) *Term {
	switch v := v.(type) {
	case VInt:
		return v.T
	case VBool:
		return Ite(v.T, IntC(1), IntC(0))
	case VOpaque:
		if v.T != nil {
			return v.T
		}
	}
	return FreshInt("nonint")
}

func (x *Exec) constValue(c *ssa.Const, st *State) Value {
	t := x.resolve(c.Type())
	if c.Value == nil {
		return x.zeroValue(t, st)
	}
	switch c.Value.Kind() {
	case constant.Bool:
		return VBool{BoolC(constant.BoolVal(c.Value))}
	case constant.String:
		s := constant.StringVal(c.Value)
		return VStr{strConst(s)}
	case constant.Int:
		v, _ := new(big.Int).SetString(c.Value.ExactString(), 10)
		if ti, ok := basicInfo(t); ok && ti.Kind == "float" {
			return VOpaque{Why: "float constant"}
		}
		return VInt{BigC(v)}
	case constant.Float:
		if constant.Sign(c.Value) == 0 {
			return VInt{IntC(0)}
		}
		return VOpaque{Why: "float constant"}
	}
	return VOpaque{Why: "constant " + c.String()}
}

func strConst(s string) *Term {
	if s == "" {
		return Empty
	}
	if len(s) > 16 {
		// long literals (error messages) are opaque named constants
		return App("strlit_"+fmt.Sprintf("%x", hashString(s)), SSeq)
	}
	parts := make([]*Term, len(s))
	for i := 0; i < len(s); i++ {
		parts[i] = Unit(IntC(int64(s[i])))
	}
	return Cat(parts...)
}

func hashString(s string) uint32 {
	var h uint32 = 2166136261
	for i := 0; i < len(s); i++ {
		h ^= uint32(s[i])
		h *= 16777619
	}
	return h
}

func (x *Exec) val(st *State, v ssa.Value) Value {
	switch v := v.(type) {
	case *ssa.Const:
		return x.constValue(v, st)
	case *ssa.Global:
		return VGlobal{v}
	case *ssa.Function:
		return VFunc{Fn: v, IsNil: False}
	case *ssa.Builtin:
		return VOpaque{Why: "builtin " + v.Name()}
	}
	if r, ok := st.env[v]; ok {
		return r
	}
	panic(fmt.Sprintf("%s: no value for %s = %s", x.inst, v.Name(), v.String()))
}

// ---------------------------------------------------------------- loops

func (x *Exec) findLoops() {
	x.loops = map[*ssa.BasicBlock]*loopInfo{}
	fn := x.fn
	for _, b := range fn.Blocks {
		for _, s := range b.Succs {
			if s.Dominates(b) { // back edge b -> s
				li := x.loops[s]
				if li == nil {
					li = &loopInfo{header: s, blocks: map[*ssa.BasicBlock]bool{s: true}}
					x.loops[s] = li
				}
				// natural loop of the back edge
				var stack []*ssa.BasicBlock
				if !li.blocks[b] {
					li.blocks[b] = true
					stack = append(stack, b)
				}
				for len(stack) > 0 {
					n := stack[len(stack)-1]
					stack = stack[:len(stack)-1]
					for _, p := range n.Preds {
						if !li.blocks[p] {
							li.blocks[p] = true
							stack = append(stack, p)
						}
					}
				}
			}
		}
	}
	var hs []*ssa.BasicBlock
	for h := range x.loops {
		hs = append(hs, h)
	}
	// loop ordinals follow block creation order, which follows source order (outer before inner, earlier before later)
	sort.Slice(hs, func(i, j int) bool { return hs[i].Index < hs[j].Index })
	for i, h := range hs {
		x.loops[h].ordinal = i + 1
		if x.fc != nil {
			x.loops[h].spec = x.fc.Loops[i+1]
		}
	}
}

func blockPos(b *ssa.BasicBlock) token.Pos {
	best := token.Pos(1 << 40)
	for _, in := range b.Instrs {
		if p := in.Pos(); p.IsValid() && p < best {
			best = p
		}
	}
	if best == token.Pos(1<<40) {
		return token.Pos(b.Index) + (1 << 30)
	}
	return best
}

// ---------------------------------------------------------------- execution

func (x *Exec) execFrom(st *State, b *ssa.BasicBlock, pred *ssa.BasicBlock) {
	if st.dead {
		return
	}
	x.paths++
	if x.maxPaths > 0 && x.paths > x.maxPaths {
		x.unsupportedAt(st, "path-limit")
		return
	}
	li := x.loops[b]
	if li != nil {
		if pred != nil && li.blocks[pred] {
			// back edge: invariant preserved, variant decreased; path ends here
			x.bindPhis(st, b, pred)
			st.lenv = x.loopEnv(st, li)
			st.lenvOwner = li.header
			x.checkInvariants(st, li, "preserved")
			for _, in := range b.Instrs {
				phi, ok := in.(*ssa.Phi)
				if !ok {
					break
				}
				if want, ok := x.phiProv[phi]; ok {
					if sl, ok := st.env[phi].(VSlice); ok && sl.Arr != nil && sl.Arr.Prov != want {
						x.obligeProps(st, "frame", fmt.Sprintf("loop%d/provenance(%s)", li.ordinal, phi.Comment), False, "a loop-carried slice keeps its provenance ("+want+"), got "+sl.Arr.Prov, []string{"C16"})
					}
				}
			}
			return
		}
		x.bindPhis(st, b, pred)
		st.lenv = x.loopEnv(st, li)
		st.lenvOwner = li.header
		x.checkInvariants(st, li, "entry")
		st.entryOf[b] = st.clone()
		x.havocLoop(st, li)
		st.lenv = x.loopEnv(st, li)
		st.lenvOwner = li.header
		x.assumeInvariants(st, li)
	} else {
		x.bindPhis(st, b, pred)
	}
	x.execInstrs(st, b, 0)
}

// implied reports 1 if t is syntactically in the path condition, -1 if its negation is, 0 otherwise.
func (st *State) implied(t *Term) int {
	if t.IsTrue() {
		return 1
	}
	if t.IsFalse() {
		return -1
	}
	if t.Op == "and" {
		all := true
		for _, a := range t.Args {
			switch st.implied(a) {
			case -1:
				return -1
			case 0:
				all = false
			}
		}
		if all {
			return 1
		}
		return 0
	}
	k, nk := t.Key(), Not(t).Key()
	for _, p := range st.pc {
		pk := p.Key()
		if pk == k {
			return 1
		}
		if pk == nk {
			return -1
		}
	}
	return 0
}

func (x *Exec) execInstrs(st *State, b *ssa.BasicBlock, start int) {
	for i := start; i < len(b.Instrs); i++ {
		if st.dead {
			return
		}
		in := b.Instrs[i]
		if _, ok := in.(*ssa.Phi); ok {
			continue
		}
		switch in := in.(type) {
		case *ssa.If:
			c := x.val(st, in.Cond).(VBool).T
			tb, fb := b.Succs[0], b.Succs[1]
			switch st.implied(c) {
			case 1:
				x.execFrom(st, tb, b)
			case -1:
				x.execFrom(st, fb, b)
			default:
				s2 := st.clone()
				s2.assume(Not(c))
				s2.trace = append(s2.trace, fmt.Sprintf("b%d:else", b.Index))
				st.assume(c)
				st.trace = append(st.trace, fmt.Sprintf("b%d:then", b.Index))
				x.normalizeBuffers(st)
				x.normalizeBuffers(s2)
				x.execFrom(st, tb, b)
				x.execFrom(s2, fb, b)
			}
			return
		case *ssa.Jump:
			x.execFrom(st, b.Succs[0], b)
			return
		case *ssa.Return:
			x.doReturn(st, in)
			return
		case *ssa.Panic:
			x.oblige(st, "safe", fmt.Sprintf("explicit-panic@b%d", b.Index), False, "explicit panic is unreachable")
			return
		default:
			x.step(st, in)
			if len(x.pendingForks) > 0 {
				forks := x.pendingForks
				x.pendingForks = nil
				for k, f := range forks {
					if v, ok := in.(ssa.Value); ok {
						f.st.env[v] = f.val
					}
					f.st.trace = append(f.st.trace, fmt.Sprintf("b%d.%d:alt%d", b.Index, i, k))
					x.execInstrs(f.st, b, i+1)
				}
			}
		}
	}
}

func (x *Exec) bindPhis(st *State, b, pred *ssa.BasicBlock) {
	if pred == nil {
		return
	}
	idx := -1
	for i, p := range b.Preds {
		if p == pred {
			idx = i
		}
	}
	vals := map[*ssa.Phi]Value{}
	for _, in := range b.Instrs {
		phi, ok := in.(*ssa.Phi)
		if !ok {
			break
		}
		vals[phi] = x.val(st, phi.Edges[idx])
	}
	for p, v := range vals {
		st.env[p] = v
	}
}

func (x *Exec) doReturn(st *State, r *ssa.Return) {
	x.returns++
	var res []Value
	for _, v := range r.Results {
		res = append(res, x.val(st, v))
	}
	if x.onReturn != nil {
		x.onReturn(st, res)
	}
}

// havocLoop forgets everything the loop body may change.
func (x *Exec) havocLoop(st *State, li *loopInfo) {
	written := map[*Obj]bool{}
	markVal := func(v Value) {
		switch v := v.(type) {
		case VPtr:
			if v.Obj != nil {
				written[v.Obj] = true
			}
		case VSlice:
			written[v.Arr] = true
		case VFieldPtr:
			written[v.Obj] = true
		case VElemPtr:
			written[v.Arr] = true
		case VIface:
			if v.Obj != nil {
				written[v.Obj] = true
			}
		case VBox:
			if p, ok := v.Inner.(VPtr); ok && p.Obj != nil {
				written[p.Obj] = true
			}
		}
	}
	defined := func(v ssa.Value) (Value, bool) {
		switch v.(type) {
		case *ssa.Const, *ssa.Global, *ssa.Function, *ssa.Builtin:
			return nil, false
		}
		r, ok := st.env[v]
		return r, ok
	}
	var blocks []*ssa.BasicBlock
	for b := range li.blocks {
		blocks = append(blocks, b)
	}
	sort.Slice(blocks, func(i, j int) bool { return blocks[i].Index < blocks[j].Index })
	for _, b := range blocks {
		for _, in := range b.Instrs {
			switch in := in.(type) {
			case *ssa.Store:
				root := in.Addr
				for {
					switch a := root.(type) {
					case *ssa.FieldAddr:
						root = a.X
						continue
					case *ssa.IndexAddr:
						root = a.X
						continue
					case *ssa.Slice:
						root = a.X
						continue
					}
					break
				}
				if v, ok := defined(root); ok {
					markVal(v)
				}
			case ssa.CallInstruction:
				cc := in.Common()
				if pureCallee(cc) {
					continue
				}
				args := cc.Args
				if cc.IsInvoke() {
					args = append([]ssa.Value{cc.Value}, args...)
				}
				for _, a := range args {
					if v, ok := defined(a); ok {
						markVal(v)
					}
				}
			case *ssa.MapUpdate:
				if v, ok := defined(in.Map); ok {
					if m, ok := v.(VMap); ok && m.Obj != nil {
						written[m.Obj] = true
					}
				}
			}
		}
	}
	// input slices handed to read-only callees are not modified: only buffers, dyn objects,
	// cells and arrays that are stored to directly are havocked
	var objs []*Obj
	for o := range written {
		objs = append(objs, o)
	}
	sort.Slice(objs, func(i, j int) bool { return objs[i].ID < objs[j].ID })
	for _, o := range objs {
		c := st.mut(o)
		switch o.Kind {
		case "buffer":
			c.Seq = FreshSeq(o.Name + ".u@loop")
			st.assume(App("bytes", SBool, c.Seq))
			c.Epoch++
		case "array":
			if o.Prov != "fresh" && !x.arrayStoredIn(li, st, o) {
				continue
			}
			c.Seq = FreshSeq(o.Name + "@loop")
			x.assumeElems(st, o.Type, c.Seq)
		case "cell":
			c.Val = x.symValue(st, o.Type, o.Name+"@loop", "loop")
		case "struct":
			c.Fields = map[int]Value{}
		case "dyn":
			// a message part may be rewritten by Encode/Decode; its wire image is constrained by contracts only
			c.MV = FreshInt(o.Name + ".mv@loop")
		}
	}
	// loop-carried SSA values
	for _, in := range li.header.Instrs {
		phi, ok := in.(*ssa.Phi)
		if !ok {
			break
		}
		name := phi.Comment
		if name == "" {
			name = phi.Name()
		}
		if ev, ok := st.env[phi].(VSlice); ok && ev.Arr != nil && ev.Cap != nil && resliceOnly(li, phi) {
			// The loop only narrows this slice (s = s[a:], s = s[:len(s)-c]): it stays a window of the same array
			// within its bounds at loop entry. This is a fact about the shape of the code, not a contract.
			lo, hi := FreshInt(name+".lo@loop"), FreshInt(name+".hi@loop")
			switch resliceDir(li, phi) {
			case 'L': // no slice expression in the loop has an upper bound: the end stays where it was
				hi = ev.Hi
			case 'R': // none has a (non-zero) lower bound: the start stays where it was
				lo = ev.Lo
			}
			st.assume(And(Le(ev.Lo, lo), Le(lo, hi), Le(hi, ev.Hi)))
			st.env[phi] = VSlice{Arr: ev.Arr, Lo: lo, Hi: hi, Cap: Sub(ev.Cap, Sub(lo, ev.Lo)), IsNil: ev.IsNil, Elem: ev.Elem}
			nm := make(map[*ssa.Phi]VSlice, len(st.reslice)+1)
			for k, v := range st.reslice {
				nm[k] = v
			}
			nm[phi] = ev
			st.reslice = nm
			continue
		}
		entryProv := ""
		if ev, ok := st.env[phi].(VSlice); ok && ev.Arr != nil {
			entryProv = ev.Arr.Prov
		}
		st.env[phi] = x.symValue(st, phi.Type(), name+"@loop", "loop")
		if sl, ok := st.env[phi].(VSlice); ok && entryProv != "" {
			// provenance is loop-invariant: checked again on the back edge
			sl.Arr.Prov = entryProv
			if x.phiProv == nil {
				x.phiProv = map[*ssa.Phi]string{}
			}
			x.phiProv[phi] = entryProv
		}
		if sl, ok := st.env[phi].(VSlice); ok {
			sl.IsNil = False
			sl.Cap = FreshInt(name + ".cap@loop")
			st.assume(Le(sliceLen(sl), sl.Cap))
			st.env[phi] = sl
		}
	}
	if loopAllocates(li) {
		st.alloc = FreshInt("alloc@loop")
	}
}

// peek evaluates a side-effect-free value (a conversion, len / cap, integer arithmetic) that the loop header
// computes from values available before the loop, without executing the header.
func (x *Exec) peek(st *State, v ssa.Value, depth int) (res Value, ok bool) {
	if r, ok := st.env[v]; ok {
		return r, true
	}
	if depth > 4 {
		return nil, false
	}
	defer func() {
		if r := recover(); r != nil {
			res, ok = nil, false
		}
	}()
	switch in := v.(type) {
	case *ssa.Const:
		return x.constValue(in, st), true
	case *ssa.Convert:
		a, ok := x.peek(st, in.X, depth+1)
		if !ok {
			return nil, false
		}
		if _, isInt := a.(VInt); !isInt {
			return nil, false
		}
		fi, fok := x.tinfo(in.X.Type())
		ti, tok := x.tinfo(in.Type())
		if !fok || !tok || fi.Kind == "float" || ti.Kind == "float" || fi.Kind == "string" || ti.Kind == "string" {
			return nil, false
		}
		if ti.Width == 8 && (fi.Width < 8 || fi.Signed == ti.Signed) && (ti.Signed || !fi.Signed) {
			return a, true
		}
		return VInt{wrap(ti, x.intOf(a))}, true
	case *ssa.Call:
		if b, isB := in.Call.Value.(*ssa.Builtin); isB && (b.Name() == "len" || b.Name() == "cap") && len(in.Call.Args) == 1 {
			a, ok := x.peek(st, in.Call.Args[0], depth+1)
			if !ok {
				return nil, false
			}
			if _, isMap := a.(VMap); isMap {
				return nil, false
			}
			r := x.builtin(st, b, []Value{a}, &in.Call, in)
			return r, r != nil
		}
	}
	return nil, false
}

// resliceOnly: every value the loop feeds back into the slice phi is the phi itself narrowed by 2-index slice
// expressions whose upper bound, if present, is len(s) or len(s) - c with a constant c >= 0.
func resliceOnly(li *loopInfo, phi *ssa.Phi) bool {
	if _, ok := phi.Type().Underlying().(*types.Slice); !ok {
		return false
	}
	isLenOf := func(v ssa.Value, of ssa.Value) bool {
		c, ok := v.(*ssa.Call)
		if !ok {
			return false
		}
		b, ok := c.Call.Value.(*ssa.Builtin)
		return ok && b.Name() == "len" && len(c.Call.Args) == 1 && c.Call.Args[0] == of
	}
	var derived func(v ssa.Value, depth int) bool
	derived = func(v ssa.Value, depth int) bool {
		if v == phi {
			return true
		}
		sl, ok := v.(*ssa.Slice)
		if !ok || depth > 4 || sl.Max != nil || !li.blocks[sl.Block()] {
			return false
		}
		if sl.High != nil {
			okHigh := isLenOf(sl.High, sl.X)
			if b, ok := sl.High.(*ssa.BinOp); ok && b.Op == token.SUB && isLenOf(b.X, sl.X) {
				if c, ok := b.Y.(*ssa.Const); ok && c.Value != nil && constant.Sign(c.Value) >= 0 {
					okHigh = true
				}
			}
			if !okHigh {
				return false
			}
		}
		return derived(sl.X, depth+1)
	}
	back := 0
	for i, e := range phi.Edges {
		if !li.blocks[phi.Block().Preds[i]] {
			continue
		}
		back++
		if !derived(e, 0) {
			return false
		}
	}
	return back > 0
}

// resliceDir: 'L' if the loop narrows the slice from the left only, 'R' from the right only, 0 otherwise.
func resliceDir(li *loopInfo, phi *ssa.Phi) byte {
	left, right := false, false
	for b := range li.blocks {
		for _, in := range b.Instrs {
			if sl, ok := in.(*ssa.Slice); ok {
				if sl.Low != nil {
					if c, ok := sl.Low.(*ssa.Const); !ok || c.Value == nil || constant.Sign(c.Value) != 0 {
						left = true
					}
				}
				if sl.High != nil {
					right = true
				}
			}
		}
	}
	switch {
	case left && !right:
		return 'L'
	case right && !left:
		return 'R'
	}
	return 0
}

func loopAllocates(li *loopInfo) bool {
	for b := range li.blocks {
		for _, in := range b.Instrs {
			switch in := in.(type) {
			case *ssa.Alloc:
				if in.Heap {
					return true
				}
			case *ssa.MakeSlice, *ssa.MakeMap, *ssa.MakeClosure, *ssa.MakeInterface:
				return true
			case *ssa.Convert:
				if _, ok := in.Type().Underlying().(*types.Basic); !ok {
					return true
				}
				if b, ok := in.Type().Underlying().(*types.Basic); ok && b.Info()&types.IsString != 0 {
					return true
				}
			case ssa.CallInstruction:
				if !pureCallee(in.Common()) {
					return true
				}
			}
		}
	}
	return false
}

func (x *Exec) arrayStoredIn(li *loopInfo, st *State, o *Obj) bool { return true }

func pureCallee(cc *ssa.CallCommon) bool {
	if b, ok := cc.Value.(*ssa.Builtin); ok {
		switch b.Name() {
		case "len", "cap", "min", "max":
			return true
		}
		return false
	}
	if f := cc.StaticCallee(); f != nil {
		switch f.String() {
		case "(*bytes.Buffer).Len", "(*bytes.Buffer).Bytes", "errors.New", "fmt.Errorf":
			return true
		}
	}
	return false
}

func (x *Exec) loopEnv(st *State, li *loopInfo) map[string]Value {
	env := map[string]Value{}
	for k, v := range st.lenv { // names of enclosing loops stay visible
		if st.lenvOwner != li.header && strings.HasPrefix(k, "\\outer_") {
			continue // stale: belonged to another loop nest
		}
		env[k] = v
	}
	if st.lenvOwner != li.header && st.lenvOwner != nil && x.loops[st.lenvOwner] != nil && x.loops[st.lenvOwner].blocks[li.header] {
		// entering a loop nested in the one whose names are current: keep the enclosing loop's role names as \outer_*
		for k, v := range st.lenv {
			if strings.HasPrefix(k, "\\") && !strings.HasPrefix(k, "\\outer_") {
				env["\\outer_"+k[1:]] = v
			}
		}
	}
	var phis []*ssa.Phi
	for _, in := range li.header.Instrs {
		phi, ok := in.(*ssa.Phi)
		if !ok {
			break
		}
		phis = append(phis, phi)
		if phi.Comment != "" {
			env[phi.Comment] = st.env[phi]
			if phi.Comment == "rangeindex" {
				env["\\idx"] = st.env[phi]
			}
		}
	}
	// role names, independent of what the programmer called the variables:
	//   \iv   the induction variable (the loop-carried value the loop condition tests)
	//   \k    the number of completed iterations' worth of progress: \iv for an index loop, \idx+1 for a range loop
	//   \n    what \k is compared with in the loop condition
	//   \acc  the (first) other loop-carried value, \acc2 the second
	//   \arr  the slice the loop indexes with the induction variable
	var iv *ssa.Phi
	if ifi, ok := li.header.Instrs[len(li.header.Instrs)-1].(*ssa.If); ok {
		if cmp, ok := ifi.Cond.(*ssa.BinOp); ok {
			for side, op := range []ssa.Value{cmp.X, cmp.Y} {
				var cand *ssa.Phi
				kval := op
				if p, ok := op.(*ssa.Phi); ok && p.Block() == li.header {
					cand = p
				} else if b, ok := op.(*ssa.BinOp); ok {
					if p, ok := b.X.(*ssa.Phi); ok && p.Block() == li.header {
						cand = p
					}
				}
				if cand == nil {
					continue
				}
				iv = cand
				env["\\iv"] = st.env[cand]
				if pv, ok := st.env[cand].(VInt); ok {
					env["\\k"] = pv
					if b, ok := kval.(*ssa.BinOp); ok {
						if cst, ok := b.Y.(*ssa.Const); ok && b.Op == token.ADD {
							if cv, ok := x.constValue(cst, st).(VInt); ok {
								env["\\k"] = VInt{Add(pv.T, cv.T)}
							}
						}
					}
				}
				other := cmp.Y
				if side == 1 {
					other = cmp.X
				}
				switch o := other.(type) {
				case *ssa.Const:
					env["\\n"] = x.constValue(o, st)
				default:
					if v, ok := x.peek(st, other, 0); ok {
						env["\\n"] = v
					}
				}
				break
			}
		}
	}
	if iv == nil {
		// a loop that narrows a slice: the induction variable is the moving bound, relative to the slice at loop entry
		for _, p := range phis {
			cur, ok2 := st.env[p].(VSlice)
			if !ok2 || cur.Arr == nil {
				continue
			}
			ev, ok := st.reslice[p]
			if !ok || ev.Arr != cur.Arr {
				// on arrival at the loop (before its state is generalised) the slice is its own entry value
				if !resliceOnly(li, p) {
					continue
				}
				ev = cur
			}
			switch resliceDir(li, p) {
			case 'L':
				env["\\iv"] = VInt{Sub(cur.Lo, ev.Lo)}
			case 'R':
				env["\\iv"] = VInt{Sub(cur.Hi, ev.Lo)}
			default:
				continue
			}
			iv = p
			env["\\k"] = env["\\iv"]
			env["\\arr"] = ev
			break
		}
	}
	if _, ok := env["\\k"]; !ok {
		if v, ok := env["\\idx"].(VInt); ok {
			env["\\k"] = VInt{Add(v.T, IntC(1))}
		}
	}
	nacc := 0
	for _, p := range phis {
		if p == iv {
			continue
		}
		nacc++
		if nacc == 1 {
			env["\\acc"] = st.env[p]
		} else {
			env[fmt.Sprintf("\\acc%d", nacc)] = st.env[p]
		}
	}
	if iv != nil {
		for b := range li.blocks {
			for _, in := range b.Instrs {
				ia, ok := in.(*ssa.IndexAddr)
				if !ok {
					continue
				}
				uses := false
				switch idx := ia.Index.(type) {
				case *ssa.Phi:
					uses = idx == iv
				case *ssa.BinOp:
					uses = idx.X == iv
				}
				if uses {
					if v, ok := st.env[ia.X]; ok {
						env["\\arr"] = v
					}
				}
			}
		}
	}
	return env
}

func (x *Exec) invariantsFor(li *loopInfo) []LoopInv {
	if li.spec == nil {
		return nil
	}
	var out []LoopInv
	for _, iv := range li.spec.Invariants {
		if iv.Behavior == "" || iv.Behavior == x.run {
			out = append(out, iv)
		}
	}
	return out
}

func (x *Exec) checkInvariants(st *State, li *loopInfo, when string) {
	if li.spec == nil {
		x.oblige(st, "loop", fmt.Sprintf("loop%d/missing-invariant", li.ordinal), False, "every loop needs an invariant in the contract")
		return
	}
	ev := x.evaluator(st)
	ev.extra = x.loopEnv(st, li)
	ev.entry = st.entryOf[li.header]
	if when == "entry" {
		ev.entry = st
	}
	for i, iv := range x.invariantsFor(li) {
		t, err := ev.boolTerm(iv.E)
		if err != nil {
			x.oblige(st, "loop", fmt.Sprintf("loop%d/%s/inv#%d", li.ordinal, when, i+1), False, "invariant not evaluable: "+err.Error())
			continue
		}
		x.oblige(st, "loop", fmt.Sprintf("loop%d/%s/inv#%d", li.ordinal, when, i+1), t, iv.E.String())
	}
	if when == "preserved" && li.spec.Decreases != nil {
		v1, err := ev.intTerm(li.spec.Decreases)
		v0 := st.variant[li.header]
		if err != nil || v0 == nil {
			x.oblige(st, "loop", fmt.Sprintf("loop%d/variant", li.ordinal), False, "variant not evaluable")
		} else {
			x.oblige(st, "loop", fmt.Sprintf("loop%d/variant", li.ordinal), And(Le(IntC(0), v0), Lt(v1, v0)), "decreases "+li.spec.Decreases.String())
		}
	}
	if when == "preserved" && li.spec.Decreases == nil {
		x.oblige(st, "loop", fmt.Sprintf("loop%d/variant", li.ordinal), False, "loop has no decreases clause")
	}
}

func (x *Exec) assumeInvariants(st *State, li *loopInfo) {
	if li.spec == nil {
		return
	}
	ev := x.evaluator(st)
	ev.extra = x.loopEnv(st, li)
	ev.entry = st.entryOf[li.header]
	for _, iv := range x.invariantsFor(li) {
		if t, err := ev.boolTerm(iv.E); err == nil {
			st.assume(t)
		}
	}
	if li.spec.Decreases != nil {
		if v, err := ev.intTerm(li.spec.Decreases); err == nil {
			st.variant[li.header] = v
		}
	}
}

// ---------------------------------------------------------------- instructions

func (x *Exec) step(st *State, in ssa.Instruction) {
	defer func() {
		if r := recover(); r != nil {
			if s, ok := r.(string); ok && strings.HasPrefix(s, "unsupported:") {
				x.unsupportedAt(st, strings.TrimPrefix(s, "unsupported:"))
				return
			}
			panic(r)
		}
	}()
	switch in := in.(type) {
	case *ssa.Alloc:
		st.env[in] = x.doAlloc(st, in)
	case *ssa.UnOp:
		st.env[in] = x.doUnOp(st, in)
	case *ssa.BinOp:
		st.env[in] = x.doBinOp(st, in)
	case *ssa.Store:
		x.store(st, x.val(st, in.Addr), x.val(st, in.Val), in)
	case *ssa.FieldAddr:
		st.env[in] = x.doFieldAddr(st, in)
	case *ssa.Field:
		panic("unsupported:field-of-struct-value")
	case *ssa.IndexAddr:
		st.env[in] = x.doIndexAddr(st, in)
	case *ssa.Index:
		panic("unsupported:index-of-value")
	case *ssa.Slice:
		st.env[in] = x.doSlice(st, in)
	case *ssa.Convert:
		st.env[in] = x.doConvert(st, in)
	case *ssa.ChangeType:
		st.env[in] = x.val(st, in.X)
	case *ssa.ChangeInterface:
		st.env[in] = x.val(st, in.X)
	case *ssa.MakeInterface:
		st.env[in] = x.doMakeInterface(st, in)
	case *ssa.TypeAssert:
		st.env[in] = x.doTypeAssert(st, in)
	case *ssa.Extract:
		st.env[in] = x.val(st, in.Tuple).(VTuple)[in.Index]
	case *ssa.Call:
		st.env[in] = x.doCall(st, in.Common(), in)
	case *ssa.MakeSlice:
		st.env[in] = x.doMakeSlice(st, in)
	case *ssa.MakeMap:
		o := newObj("map", in.Type(), in.Name(), "fresh")
		m0 := FreshInt("emptymap")
		kq := Var("k!e", SInt)
		st.assume(Forall([]*Term{kq}, Not(mdom(m0, kq)), mdom(m0, kq)))
		st.heap[o] = &Content{MapID: freshName("map"), MV: m0}
		st.env[in] = VMap{o}
		st.alloc = Add(st.alloc, IntC(48))
	case *ssa.MakeClosure:
		var bs []Value
		for _, b := range in.Bindings {
			bs = append(bs, x.val(st, b))
		}
		st.env[in] = VFunc{Fn: in.Fn.(*ssa.Function), Bindings: bs, IsNil: False}
	case *ssa.Lookup:
		st.env[in] = x.doLookup(st, in)
	case *ssa.MapUpdate:
		x.doMapUpdate(st, in)
	case *ssa.Defer:
		var args []Value
		for _, a := range in.Call.Args {
			args = append(args, x.val(st, a))
		}
		st.defers = append(st.defers, deferred{call: &in.Call, args: args})
	case *ssa.RunDefers:
		for i := len(st.defers) - 1; i >= 0; i-- {
			d := st.defers[i]
			x.callWithArgs(st, d.call, d.args, nil)
		}
		st.defers = nil
	case *ssa.DebugRef:
		if !in.IsAddr {
			if obj := in.Object(); obj != nil {
				if v, ok := st.env[in.X]; ok {
					st.setLocal(obj.Name(), v)
				} else if c, ok := in.X.(*ssa.Const); ok {
					st.setLocal(obj.Name(), x.constValue(c, st))
				}
			}
		}
	case *ssa.Go, *ssa.Select, *ssa.Send, *ssa.Range, *ssa.Next, *ssa.MakeChan:
		panic("unsupported:" + fmt.Sprintf("%T", in))
	default:
		panic("unsupported:" + fmt.Sprintf("%T", in))
	}
}

func (x *Exec) doAlloc(st *State, in *ssa.Alloc) Value {
	et := x.resolve(in.Type().(*types.Pointer).Elem())
	if in.Heap {
		st.alloc = Add(st.alloc, IntC(typeSize(et)))
		st.allocC += typeSize(et)
	}
	if hasCodecMethods(et) {
		o := newObj("dyn", et, in.Comment, "fresh")
		o.BornIn = x.currentLoop(st, in)
		tg := tagOf(et)
		st.heap[o] = &Content{Tag: tg, MV: zeroMV(tg)}
		return VPtr{Obj: o, IsNil: False}
	}
	if isBytesBuffer(et) {
		o := newObj("buffer", et, in.Comment, "fresh")
		st.heap[o] = &Content{Seq: Empty}
		return VPtr{Obj: o, IsNil: False}
	}
	switch u := et.Underlying().(type) {
	case *types.Array:
		n := u.Len()
		var c *Term = Empty
		if n <= 16 {
			parts := make([]*Term, n)
			for i := range parts {
				parts[i] = Unit(x.box(st, x.zeroValue(u.Elem(), st)))
			}
			c = Cat(parts...)
		} else {
			c = Rep(IntC(0), IntC(n))
		}
		arr := x.newArray(st, u.Elem(), c, in.Comment, "fresh")
		return VPtr{Obj: arr, IsNil: False}
	case *types.Struct:
		o := newObj("struct", et, in.Comment, "fresh")
		fs := map[int]Value{}
		for i := 0; i < u.NumFields(); i++ {
			fs[i] = x.zeroValue(u.Field(i).Type(), st)
		}
		st.heap[o] = &Content{Fields: fs}
		return VPtr{Obj: o, IsNil: False}
	}
	o := newObj("cell", et, in.Comment, "fresh")
	st.heap[o] = &Content{Val: x.zeroValue(et, st)}
	return VPtr{Obj: o, IsNil: False}
}

func (x *Exec) nonNil(st *State, isnil *Term, what string, in ssa.Instruction) {
	if isnil == nil || isnil.IsFalse() {
		return
	}
	x.oblige(st, "safe", fmt.Sprintf("nil-deref(%s)@b%d", what, in.Block().Index), Not(isnil), "pointer "+what+" is not nil when dereferenced")
	st.assume(Not(isnil))
}

func (x *Exec) load(st *State, addr Value, in ssa.Instruction, t types.Type) Value {
	switch a := addr.(type) {
	case VPtr:
		x.nonNil(st, a.IsNil, "load", in)
		if a.Obj == nil {
			st.dead = true
			return VOpaque{Why: "load through nil"}
		}
		switch a.Obj.Kind {
		case "cell":
			return st.get(a.Obj).Val
		}
		if a.Obj.Kind == "buffer" {
			// `x := *bytes.NewBuffer(s)`: copying a Buffer whose original is never used again is a move
			if u, ok := in.(*ssa.UnOp); ok {
				if c, ok := u.X.(*ssa.Call); ok && c.Referrers() != nil {
					uses := 0
					for _, r := range *c.Referrers() {
						if _, dbg := r.(*ssa.DebugRef); !dbg {
							uses++
						}
					}
					if uses == 1 {
						return VMoved{Obj: a.Obj}
					}
				}
			}
		}
		panic("unsupported:load-of-whole-" + a.Obj.Kind)
	case VFieldPtr:
		c := st.get(a.Obj)
		if v, ok := c.Fields[a.Idx]; ok {
			return v
		}
		stt := a.Obj.Type.Underlying().(*types.Struct)
		f := stt.Field(a.Idx)
		v := x.symValue(st, f.Type(), a.Obj.Name+"."+f.Name(), a.Obj.Prov)
		c = st.mut(a.Obj)
		c.Fields[a.Idx] = v
		if m, ok := v.(VMap); ok && m.Obj != nil {
			if mu := x.mutexOf(st, a.Obj); mu != nil {
				m.Obj.Guard = mu
				m.Obj.Name = a.Obj.Name + "." + f.Name()
				if h := st.get(mu).Held; (h == "R" || h == "W") && st.acqState == nil {
					st.acqState = st.get(m.Obj).MV // first look at the guarded state inside the critical section
				}
			}
		}
		return v
	case VElemPtr:
		c := st.get(a.Arr)
		if a.Arr.Kind == "buffer" && a.Epoch != c.Epoch {
			x.obligeProps(st, "safe", fmt.Sprintf("stale-buffer-view@b%d", in.Block().Index), False, "slice from buf.Bytes() used after the buffer was modified (the model of the read is only valid for a live view, so this is an obligation of every run)", x.props)
		}
		return x.unbox(st, At(c.Seq, a.Idx), t, a.Arr.Name+"[]")
	case VGlobal:
		return x.loadGlobal(st, a.G, in)
	}
	panic(fmt.Sprintf("unsupported:load-from-%T", addr))
}

func (x *Exec) store(st *State, addr Value, v Value, in ssa.Instruction) {
	switch a := addr.(type) {
	case VPtr:
		x.nonNil(st, a.IsNil, "store", in)
		if a.Obj == nil {
			st.dead = true
			return
		}
		if a.Obj.Kind == "cell" {
			st.mut(a.Obj).Val = v
			return
		}
		if mv, ok := v.(VMoved); ok && a.Obj.Kind == "buffer" {
			if sti, ok := in.(*ssa.Store); ok {
				if al, ok := sti.Addr.(*ssa.Alloc); ok {
					// the local takes the place of the temporary it was initialised from (which is dead)
					st.env[al] = VPtr{Obj: mv.Obj, IsNil: False}
					return
				}
			}
		}
		panic("unsupported:store-to-whole-" + a.Obj.Kind)
	case VFieldPtr:
		if mu := x.mutexOf(st, a.Obj); mu != nil {
			// fields that share a struct with a mutex are guarded by it
			held := st.get(mu).Held
			x.obligeProps(st, "lock", fmt.Sprintf("lock/field-write-under-W@b%d", blockIdx(in)), BoolC(held == "W"), "a field guarded by the mutex is reassigned only with the write lock held", []string{"C19", "C20"})
			if m, ok := v.(VMap); ok && m.Obj != nil {
				m.Obj.Guard = mu
			}
		}
		st.mut(a.Obj).Fields[a.Idx] = v
		if st.written == nil {
			st.written = map[string]bool{}
		}
		st.written[fmt.Sprintf("%d.%d", a.Obj.ID, a.Idx)] = true
	case VElemPtr:
		c := st.mut(a.Arr)
		if a.Arr.Kind == "buffer" && a.Epoch != c.Epoch {
			x.obligeProps(st, "safe", fmt.Sprintf("stale-buffer-view@b%d", in.Block().Index), False, "slice from buf.Bytes() used after the buffer was modified (the model of the read is only valid for a live view, so this is an obligation of every run)", x.props)
		}
		if o, _ := dynOf(v); o != nil {
			// a message part put into a list inside a loop must have been allocated in this very iteration:
			// otherwise all list entries alias one object (elements are treated as values everywhere else)
			if lp := x.currentLoop(st, in); lp != nil && o.BornIn != lp {
				x.obligeProps(st, "frame", fmt.Sprintf("frame/list-element-fresh-per-iteration@b%d", blockIdx(in)), False, "every element appended to a list of message parts is a distinct, freshly allocated object", []string{"C01", "C08", "C15", "C16"})
			}
		}
		c.Seq = Splice(c.Seq, a.Idx, Unit(x.box(st, v)))
	case VGlobal:
		x.storeGlobal(st, a.G, v, in)
	default:
		panic(fmt.Sprintf("unsupported:store-to-%T", addr))
	}
}

// currentLoop: the header of the innermost loop whose body contains the instruction (nil outside loops).
func (x *Exec) currentLoop(st *State, in ssa.Instruction) *ssa.BasicBlock {
	if in == nil || in.Block() == nil {
		return nil
	}
	var best *loopInfo
	for _, li := range x.loops {
		if li.blocks[in.Block()] && (best == nil || len(li.blocks) < len(best.blocks)) {
			best = li
		}
	}
	if best == nil {
		return nil
	}
	return best.header
}

// mutexOf returns the mutex object living in the same struct, if the struct has one.
func (x *Exec) mutexOf(st *State, o *Obj) *Obj {
	stt, ok := o.Type.Underlying().(*types.Struct)
	if !ok {
		return nil
	}
	for i := 0; i < stt.NumFields(); i++ {
		if n := namedOf(stt.Field(i).Type()); n != nil && n.Obj().Pkg() != nil && n.Obj().Pkg().Path() == "sync" && (n.Obj().Name() == "RWMutex" || n.Obj().Name() == "Mutex") {
			if p, ok := x.fieldPtr(st, o, i).(VPtr); ok {
				return p.Obj
			}
		}
	}
	return nil
}

func (x *Exec) doUnOp(st *State, in *ssa.UnOp) Value {
	v := x.val(st, in.X)
	switch in.Op {
	case token.MUL:
		return x.load(st, v, in, in.Type())
	case token.NOT:
		return VBool{Not(v.(VBool).T)}
	case token.SUB:
		ti, _ := x.tinfo(in.Type())
		if ti.Kind == "float" {
			panic("unsupported:float-negation")
		}
		return VInt{x.arith(st, ti, Sub(IntC(0), x.intOf(v)), in)}
	case token.XOR:
		ti, _ := x.tinfo(in.Type())
		if ti.Signed {
			return VInt{Sub(IntC(-1), x.intOf(v))}
		}
		return VInt{Sub(ti.max(), x.intOf(v))}
	}
	panic("unsupported:unop " + in.Op.String())
}

// arith applies the overflow semantics of type ti to a mathematical result.
// 64-bit types are treated as mathematical integers (assumption "int64-no-overflow").
func (x *Exec) arith(st *State, ti TypeInfo, t *Term, in ssa.Instruction) *Term {
	if ti.Width >= 8 {
		if t.IsConst() {
			return wrap(ti, t)
		}
		if ovfObligations {
			// the mathematical result is the machine result if it is representable: an obligation of the safety run
			x.oblige(st, "safe", fmt.Sprintf("no-overflow(%s%d)@b%d", ti.Kind, 8*ti.Width, in.Block().Index), inRange(ti, t), "64-bit arithmetic does not overflow (the result is modelled as a mathematical integer)")
			return t
		}
		x.V.assumptionsUsed["machine-int64-as-mathematical"] = true
		return t
	}
	return wrap(ti, t)
}

func (x *Exec) doBinOp(st *State, in *ssa.BinOp) Value {
	a, b := x.val(st, in.X), x.val(st, in.Y)
	switch in.Op {
	case token.EQL, token.NEQ:
		if ti, ok := x.tinfo(in.X.Type()); ok && ti.Kind == "float" {
			// floats are carried as bit patterns; == on floats is not equality of bit patterns (-0 == +0, NaN != NaN)
			panic("unsupported:float-comparison")
		}
		t := x.equal(st, a, b, in)
		if in.Op == token.NEQ {
			t = Not(t)
		}
		return VBool{t}
	}
	if sa, ok := a.(VStr); ok {
		if in.Op == token.ADD {
			return VStr{Cat(sa.T, b.(VStr).T)}
		}
		panic("unsupported:string-binop " + in.Op.String())
	}
	if ba, ok := a.(VBool); ok {
		bb := b.(VBool)
		switch in.Op {
		case token.AND, token.LAND:
			return VBool{And(ba.T, bb.T)}
		case token.OR, token.LOR:
			return VBool{Or(ba.T, bb.T)}
		}
	}
	ti, ok := x.tinfo(in.X.Type())
	if !ok || ti.Kind == "float" {
		panic("unsupported:binop on " + in.X.Type().String())
	}
	p, q := x.intOf(a), x.intOf(b)
	switch in.Op {
	case token.LSS:
		return VBool{Lt(p, q)}
	case token.LEQ:
		return VBool{Le(p, q)}
	case token.GTR:
		return VBool{Gt(p, q)}
	case token.GEQ:
		return VBool{Ge(p, q)}
	case token.ADD:
		return VInt{x.arith(st, ti, Add(p, q), in)}
	case token.SUB:
		return VInt{x.arith(st, ti, Sub(p, q), in)}
	case token.MUL:
		return VInt{x.arith(st, ti, Mul(p, q), in)}
	case token.QUO:
		x.oblige(st, "safe", fmt.Sprintf("div-by-zero@b%d", in.Block().Index), Neq(q, IntC(0)), "divisor is not zero")
		if !ti.Signed {
			return VInt{Div(p, q)}
		}
		// truncated division
		return VInt{Ite(Ge(p, IntC(0)), Div(p, q), Sub(IntC(0), Div(Sub(IntC(0), p), q)))}
	case token.REM:
		x.oblige(st, "safe", fmt.Sprintf("div-by-zero@b%d", in.Block().Index), Neq(q, IntC(0)), "divisor is not zero")
		if !ti.Signed {
			return VInt{Mod(p, q)}
		}
		if q.IsConst() && q.Val.Sign() > 0 {
			// Go's % truncates toward zero: sign follows the dividend
			return VInt{Ite(Ge(p, IntC(0)), Mod(p, q), Sub(IntC(0), Mod(Sub(IntC(0), p), q)))}
		}
		panic("unsupported:signed-rem-by-nonconstant")
	case token.AND:
		if q.IsConst() && isMask(q.Val) {
			return VInt{Mod(p, Add(q, IntC(1)))}
		}
		if p.IsConst() && isMask(p.Val) {
			return VInt{Mod(q, Add(p, IntC(1)))}
		}
		panic("unsupported:bitand-nonmask")
	case token.XOR:
		if ti.Width == 2 && !ti.Signed {
			return VInt{App("xor16", SInt, p, q)}
		}
		panic("unsupported:xor on " + in.X.Type().String())
	case token.SHR:
		if q.IsConst() && q.Val.IsInt64() && q.Val.Int64() < 64 {
			return VInt{Div(p, Pow2(int(q.Val.Int64())))}
		}
		panic("unsupported:shift-by-nonconstant")
	case token.SHL:
		if q.IsConst() && q.Val.IsInt64() && q.Val.Int64() < 64 {
			return VInt{wrap(ti, Mul(p, Pow2(int(q.Val.Int64()))))}
		}
		panic("unsupported:shift-by-nonconstant")
	}
	panic("unsupported:binop " + in.Op.String())
}

func isMask(v *big.Int) bool {
	if v.Sign() <= 0 {
		return false
	}
	w := new(big.Int).Add(v, big.NewInt(1))
	return new(big.Int).And(w, v).Sign() == 0
}

func (x *Exec) isNilTerm(v Value) *Term {
	switch v := v.(type) {
	case VErr:
		return v.Nil
	case VPtr:
		return v.IsNil
	case VIface:
		return v.IsNil
	case VBox:
		if v.IsNil == nil {
			return False
		}
		return v.IsNil
	case VSlice:
		if v.IsNil == nil {
			return False
		}
		return v.IsNil
	case VFunc:
		if v.IsNil == nil {
			return False
		}
		return v.IsNil
	case VMap:
		return BoolC(v.Obj == nil)
	}
	return nil
}

func (x *Exec) equal(st *State, a, b Value, in ssa.Instruction) *Term {
	isNilConst := func(v ssa.Value) bool {
		c, ok := v.(*ssa.Const)
		return ok && c.Value == nil && !isBasic(c.Type())
	}
	if bo, ok := in.(*ssa.BinOp); ok {
		if isNilConst(bo.Y) {
			if t := x.isNilTerm(a); t != nil {
				return t
			}
		}
		if isNilConst(bo.X) {
			if t := x.isNilTerm(b); t != nil {
				return t
			}
		}
	}
	switch av := a.(type) {
	case VInt:
		return Eq(av.T, x.intOf(b))
	case VBool:
		return Eq(av.T, b.(VBool).T)
	case VStr:
		return Eq(av.T, b.(VStr).T)
	}
	panic(fmt.Sprintf("unsupported:comparison of %T", a))
}

func isBasic(t types.Type) bool {
	_, ok := t.Underlying().(*types.Basic)
	return ok
}

func (x *Exec) doFieldAddr(st *State, in *ssa.FieldAddr) Value {
	base := x.val(st, in.X)
	switch p := base.(type) {
	case VPtr:
		x.nonNil(st, p.IsNil, "field "+fieldName(in), in)
		if p.Obj == nil {
			st.dead = true
			return VOpaque{Why: "field of nil"}
		}
		if p.Obj.Kind == "struct" {
			return x.fieldPtr(st, p.Obj, in.Field)
		}
		panic("unsupported:field-access-on-" + p.Obj.Kind + "(" + fieldName(in) + ")")
	case VFieldPtr:
		// nested struct value field: materialise the inner struct as its own object
		inner := x.load(st, p, in, in.X.Type().(*types.Pointer).Elem())
		if ip, ok := inner.(VPtr); ok && ip.Obj != nil && ip.Obj.Kind == "struct" {
			return x.fieldPtr(st, ip.Obj, in.Field)
		}
		panic("unsupported:nested-field")
	case VGlobal:
		x.V.noteGlobal(x.inst, p.G.Pkg.Pkg.Path()+"."+p.G.Name(), "write")
		panic("unsupported:field-of-global-struct " + p.G.Name())
	}
	panic(fmt.Sprintf("unsupported:fieldaddr on %T", base))
}

func fieldName(in *ssa.FieldAddr) string {
	st := in.X.Type().Underlying().(*types.Pointer).Elem().Underlying().(*types.Struct)
	return st.Field(in.Field).Name()
}

// fieldPtr returns the address of field idx; fields of struct / message-part type are objects of their own.
func (x *Exec) fieldPtr(st *State, o *Obj, idx int) Value {
	stt := o.Type.Underlying().(*types.Struct)
	f := stt.Field(idx)
	ft := x.resolve(f.Type())
	if _, isStruct := ft.Underlying().(*types.Struct); isStruct {
		c := st.get(o)
		if v, ok := c.Fields[idx]; ok {
			return v
		}
		var v Value
		if hasCodecMethods(ft) {
			v = x.symValue(st, ft, o.Name+"."+f.Name(), o.Prov)
		} else if n := namedOf(ft); n != nil && n.Obj().Pkg() != nil && n.Obj().Pkg().Path() == "sync" {
			m := newObj("mutex", ft, o.Name+"."+f.Name(), o.Prov)
			st.heap[m] = &Content{Held: "none"}
			v = VPtr{Obj: m, IsNil: False}
		} else {
			so := newObj("struct", ft, o.Name+"."+f.Name(), o.Prov)
			st.heap[so] = &Content{Fields: map[int]Value{}}
			v = VPtr{Obj: so, IsNil: False}
		}
		st.mut(o).Fields[idx] = v
		return v
	}
	return VFieldPtr{Obj: o, Idx: idx}
}

func (x *Exec) doIndexAddr(st *State, in *ssa.IndexAddr) Value {
	base := x.val(st, in.X)
	idx := x.intOf(x.val(st, in.Index))
	switch b := base.(type) {
	case VSlice:
		x.oblige(st, "safe", fmt.Sprintf("index-in-bounds@b%d", in.Block().Index), And(Le(IntC(0), idx), Lt(idx, sliceLen(b))), "slice index within length")
		st.assume(And(Le(IntC(0), idx), Lt(idx, sliceLen(b))))
		return VElemPtr{Arr: b.Arr, Idx: Add(b.Lo, idx), Epoch: b.Epoch}
	case VPtr:
		x.nonNil(st, b.IsNil, "array", in)
		if b.Obj != nil && b.Obj.Kind == "array" {
			n := Len(st.get(b.Obj).Seq)
			x.oblige(st, "safe", fmt.Sprintf("index-in-bounds@b%d", in.Block().Index), And(Le(IntC(0), idx), Lt(idx, n)), "array index within length")
			return VElemPtr{Arr: b.Obj, Idx: idx}
		}
	}
	if g, ok := base.(VGlobal); ok {
		x.V.noteGlobal(x.inst, g.G.Pkg.Pkg.Path()+"."+g.G.Name(), "write")
		panic("unsupported:element-of-package-level-array " + g.G.Name())
	}
	panic(fmt.Sprintf("unsupported:indexaddr on %T", base))
}

func (x *Exec) doSlice(st *State, in *ssa.Slice) Value {
	base := x.val(st, in.X)
	var lo, hi *Term
	if in.Low != nil {
		lo = x.intOf(x.val(st, in.Low))
	}
	if in.High != nil {
		hi = x.intOf(x.val(st, in.High))
	}
	if in.Max != nil {
		panic("unsupported:3-index-slice")
	}
	name := fmt.Sprintf("slice-bounds@b%d", in.Block().Index)
	switch b := base.(type) {
	case VSlice:
		if lo == nil {
			lo = IntC(0)
		}
		capRel := Sub(b.Cap, IntC(0))
		if hi == nil {
			hi = sliceLen(b)
			x.oblige(st, "safe", name, And(Le(IntC(0), lo), Le(lo, hi)), "0 <= low <= len")
		} else {
			// Go allows high up to cap; contents beyond len are not modelled, so require high <= len
			// unless the slice is known to have cap == len
			x.oblige(st, "safe", name, And(Le(IntC(0), lo), Le(lo, hi), Le(hi, capRel)), "0 <= low <= high <= cap")
			if !Le(hi, sliceLen(b)).IsTrue() {
				x.oblige(st, "safe", name+"/within-len", Le(hi, sliceLen(b)), "slice stays within the initialised length (bytes beyond len are unspecified)")
			}
		}
		st.assume(And(Le(IntC(0), lo), Le(lo, hi), Le(hi, sliceLen(b))))
		return VSlice{Arr: b.Arr, Lo: Add(b.Lo, lo), Hi: Add(b.Lo, hi), Cap: Sub(b.Cap, lo), IsNil: False, Epoch: b.Epoch, Elem: b.Elem}
	case VStr:
		if lo == nil {
			lo = IntC(0)
		}
		if hi == nil {
			hi = Len(b.T)
		}
		x.oblige(st, "safe", name, And(Le(IntC(0), lo), Le(lo, hi), Le(hi, Len(b.T))), "0 <= low <= high <= len(string)")
		st.assume(And(Le(IntC(0), lo), Le(lo, hi), Le(hi, Len(b.T))))
		return VStr{SliceT(b.T, lo, hi)}
	case VPtr:
		if b.Obj != nil && b.Obj.Kind == "array" {
			n := Len(st.get(b.Obj).Seq)
			if lo == nil {
				lo = IntC(0)
			}
			if hi == nil {
				hi = n
			}
			x.oblige(st, "safe", name, And(Le(IntC(0), lo), Le(lo, hi), Le(hi, n)), "0 <= low <= high <= len(array)")
			return VSlice{Arr: b.Obj, Lo: lo, Hi: hi, Cap: Sub(n, lo), IsNil: False, Elem: b.Obj.Type}
		}
	}
	panic(fmt.Sprintf("unsupported:slice of %T", base))
}

func (x *Exec) doConvert(st *State, in *ssa.Convert) Value {
	v := x.val(st, in.X)
	from, to := x.resolve(in.X.Type()), x.resolve(in.Type())
	fi, fok := basicInfo(from)
	ti, tok := basicInfo(to)
	if fok && tok && fi.Kind != "string" && ti.Kind != "string" {
		if fi.Kind == "float" || ti.Kind == "float" {
			if fi.Kind == ti.Kind && fi.Width == ti.Width {
				return v
			}
			panic("unsupported:float-conversion")
		}
		if ti.Width == 8 && (fi.Width < 8 || fi.Signed == ti.Signed) && (ti.Signed || !fi.Signed) {
			return VInt{x.intOf(v)}
		}
		return VInt{wrap(ti, x.intOf(v))}
	}
	if tok && ti.Kind == "string" {
		if sl, ok := v.(VSlice); ok { // string([]byte); string([]rune) encodes UTF-8 and is outside the subset
			if ei, eok := basicInfo(x.resolve(sl.Elem)); !eok || ei.Width != 1 || ei.Kind != "uint" {
				panic("unsupported:convert " + from.String() + " -> string (UTF-8 encoding)")
			}
			c := x.sliceContent(st, sl)
			st.alloc = Add(st.alloc, Len(c))
			return VStr{c}
		}
		if fok && fi.Kind == "string" {
			return v
		}
		if fok { // string(rune)
			r := x.intOf(v)
			if r.IsConst() && r.Val.IsInt64() && r.Val.Int64() >= 0 && r.Val.Int64() < 128 {
				return VStr{Unit(r)}
			}
			panic("unsupported:string(rune)-of-non-ascii-or-symbolic-rune")
		}
	}
	if fok && fi.Kind == "string" {
		if s, ok := to.Underlying().(*types.Slice); ok { // []byte(string); []rune(string) decodes UTF-8 and is outside the subset
			if ei, eok := basicInfo(x.resolve(s.Elem())); !eok || ei.Width != 1 || ei.Kind != "uint" {
				panic("unsupported:convert string -> " + to.String() + " (UTF-8 decoding)")
			}
			sv := v.(VStr)
			arr := x.newArray(st, s.Elem(), sv.T, "bytes-of-string", "fresh")
			st.alloc = Add(st.alloc, Len(sv.T))
			return VSlice{Arr: arr, Lo: IntC(0), Hi: Len(sv.T), Cap: Len(sv.T), IsNil: False, Elem: s.Elem()}
		}
	}
	panic("unsupported:convert " + from.String() + " -> " + to.String())
}

func (x *Exec) doMakeInterface(st *State, in *ssa.MakeInterface) Value {
	v := x.val(st, in.X)
	xt := x.resolve(in.X.Type())
	if isErrorType(in.Type()) {
		return VErr{False}
	}
	if p, ok := v.(VPtr); ok && p.Obj != nil && p.Obj.Kind == "dyn" {
		return VIface{IsNil: p.IsNil, Obj: p.Obj}
	}
	if i, ok := v.(VIface); ok {
		return i
	}
	return VBox{Inner: v, Type: xt, IsNil: False}
}

func (x *Exec) doTypeAssert(st *State, in *ssa.TypeAssert) Value {
	v := x.val(st, in.X)
	at := x.resolve(in.AssertedType)
	ok, res := x.assertType(st, v, at)
	if in.CommaOk {
		if res == nil {
			res = x.zeroValue(at, st)
		}
		return VTuple{res, VBool{ok}}
	}
	x.oblige(st, "safe", fmt.Sprintf("type-assertion@b%d", in.Block().Index), ok, "dynamic type satisfies the asserted type "+at.String())
	st.assume(ok)
	if res == nil {
		res = VOpaque{Why: "failed assertion"}
	}
	return res
}

// assertType decides v.(at): returns the condition under which it succeeds and the resulting value.
func (x *Exec) assertType(st *State, v Value, at types.Type) (*Term, Value) {
	switch b := v.(type) {
	case VBox:
		if b.Type == nil {
			if sv, ok := b.Inner.(VService); ok {
				return x.serviceImplements(sv, at), VBox{Inner: sv, Type: nil, IsNil: b.IsNil}
			}
			if op, ok := b.Inner.(VOpaque); ok && op.T != nil {
				if it, ok := at.Underlying().(*types.Interface); ok && it.NumMethods() == 1 && it.Method(0).Name() == "Algorithm" {
					// an arbitrary value: whether it has an Algorithm() method is a property of the value
					return And(Not(orFalse(b.IsNil)), App("implements_alg", SBool, op.T)), b
				}
			}
			return FreshBool("assert?"), nil
		}
		if it, ok := at.Underlying().(*types.Interface); ok {
			if types.Implements(b.Type, it) {
				return Not(orFalse(b.IsNil)), b
			}
			return False, nil
		}
		if types.Identical(b.Type, at) {
			return Not(orFalse(b.IsNil)), b.Inner
		}
		return False, nil
	case VIface:
		if it, ok := at.Underlying().(*types.Interface); ok && isCodecInterface(it) {
			return Not(b.IsNil), b
		}
		if b.Obj != nil {
			if hasCodecMethods(at) {
				tg := st.get(b.Obj).Tag
				return And(Not(b.IsNil), Eq(tg, tagOf(at))), VPtr{Obj: b.Obj, IsNil: False}
			}
		}
	case VErr:
		return FreshBool("errassert?"), nil
	}
	return FreshBool("assert?"), nil
}

func orFalse(t *Term) *Term {
	if t == nil {
		return False
	}
	return t
}

func (x *Exec) doMakeSlice(st *State, in *ssa.MakeSlice) Value {
	n := x.intOf(x.val(st, in.Len))
	c := x.intOf(x.val(st, in.Cap))
	et := in.Type().Underlying().(*types.Slice).Elem()
	x.oblige(st, "safe", fmt.Sprintf("make-len-nonneg@b%d", in.Block().Index), And(Le(IntC(0), n), Le(n, c)), "make: 0 <= len <= cap")
	st.assume(And(Le(IntC(0), n), Le(n, c)))
	sz := typeSize(x.resolve(et))
	st.alloc = Add(st.alloc, Mul(IntC(sz), c))
	if c.IsConst() && c.Val.IsInt64() {
		st.allocC += sz * c.Val.Int64()
	} else {
		st.allocUnknown = true
	}
	zero := x.box(st, x.zeroValue(et, st))
	arr := x.newArray(st, et, Rep(zero, n), in.Name(), "fresh")
	return VSlice{Arr: arr, Lo: IntC(0), Hi: n, Cap: c, IsNil: False, Elem: et}
}
