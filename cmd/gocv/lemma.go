package main

// Lemmas: proved once (optionally by induction on a non-negative integer measure) and then
// available to behaviours that cite them with `using`.

import "fmt"

func (V *Verifier) findLemma(name string) *Lemma {
	for _, cf := range V.files {
		for _, l := range cf.Lemmas {
			if l.Name == name {
				return l
			}
		}
	}
	return nil
}

func (V *Verifier) lemmaEval(binds map[string]*Term) *evaluator {
	x := &Exec{V: V, names: map[string]Value{}, ghosts: map[string]*Term{}, holes: map[string]string{}, sigma: Subst{}}
	st := &State{env: nil, heap: map[*Obj]*Content{}, alloc: IntC(0)}
	ev := x.evaluator(st)
	for k, v := range binds {
		ev.terms[k] = v
	}
	return ev
}

// lemmaStatement instantiates requires / ensures / measure / triggers of a lemma for the given variable suffix.
func (V *Verifier) lemmaStatement(l *Lemma, suffix string) (vars []*Term, req, ens, measure *Term, trig []*Term, err error) {
	binds := map[string]*Term{}
	for _, p := range l.Params {
		v := Var(p.Name+suffix, p.Sort)
		binds[p.Name] = v
		vars = append(vars, v)
	}
	ev := V.lemmaEval(binds)
	req, ens = True, True
	for _, r := range l.Requires {
		t, e := ev.boolTerm(r)
		if e != nil {
			return nil, nil, nil, nil, nil, e
		}
		req = And(req, t)
	}
	for _, r := range l.Ensures {
		t, e := ev.boolTerm(r)
		if e != nil {
			return nil, nil, nil, nil, nil, e
		}
		ens = And(ens, t)
	}
	if l.Induct != nil {
		measure, err = ev.intTerm(l.Induct)
		if err != nil {
			return
		}
	}
	for _, tr := range l.Triggers {
		t, e := ev.term(tr)
		if e != nil {
			return nil, nil, nil, nil, nil, e
		}
		trig = append(trig, t)
	}
	return
}

// lemmaAxiom is the universally quantified statement of a (proved) lemma.
func (V *Verifier) lemmaAxiom(name string) (*Term, error) {
	l := V.findLemma(name)
	if l == nil {
		return nil, fmt.Errorf("unknown lemma %s", name)
	}
	vars, req, ens, _, trig, err := V.lemmaStatement(l, "!l")
	if err != nil {
		return nil, err
	}
	return Forall(vars, Implies(req, ens), trig...), nil
}

func (V *Verifier) VerifyLemma(l *Lemma) []*Obligation {
	name := "lemma/" + l.Name
	vars, req, ens, m, _, err := V.lemmaStatement(l, "!0")
	_ = vars
	if err != nil {
		return []*Obligation{{Name: name, Func: name, Kind: "lemma", Props: l.Props, Goal: False, Detail: "lemma not evaluable: " + err.Error()}}
	}
	hyps := []*Term{req}
	for _, u := range l.Using {
		if ax, err := V.lemmaAxiom(u); err == nil {
			hyps = append(hyps, ax)
		}
	}
	var hints []*Term
	ev := V.lemmaEval(nil)
	_ = ev
	if l.Induct != nil {
		ivars, ireq, iens, im, itrig, err := V.lemmaStatement(l, "!ih")
		if err != nil {
			return []*Obligation{{Name: name, Func: name, Kind: "lemma", Props: l.Props, Goal: False, Detail: err.Error()}}
		}
		ih := Forall(ivars, Implies(And(ireq, Le(IntC(0), im), Lt(im, m)), iens), itrig...)
		hyps = append(hyps, ih)
	}
	var out []*Obligation
	for i, cj := range conjuncts(ens) {
		out = append(out, &Obligation{Name: fmt.Sprintf("%s/ensures#%d", name, i+1), Func: name, Kind: "lemma", Props: l.Props, Hyps: hyps, Goal: wrapSeqEq(cj), Hints: hints,
			Detail: "lemma " + l.Name})
	}
	out = append(out, &Obligation{Name: name + "/canary(hypotheses-satisfiable)", Func: name, Kind: "canary", Canary: true, Hyps: hyps, Goal: False, Detail: "the lemma's hypotheses (incl. induction hypothesis) are not contradictory"})
	if l.Induct != nil {
		out = append(out, &Obligation{Name: name + "/measure-nonneg", Func: name, Kind: "lemma", Props: l.Props, Hyps: []*Term{req}, Goal: Le(IntC(0), m), Detail: "induction measure is non-negative"})
	}
	return out
}
