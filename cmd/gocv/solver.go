package main

// Obligations and their discharge by SMT solvers (z3 4.8.12, z3 5.1.0, cvc5 1.0.x raced).

import (
	"bytes"
	"context"
	"crypto/sha256"
	"encoding/hex"
	"fmt"
	"os"
	"os/exec"
	"path/filepath"
	"regexp"
	"sort"
	"strings"
	"sync"
	"time"
)

type Obligation struct {
	Name   string   // stable structural name
	Props  []string // property ids this obligation is attributed to
	Func   string   // function under contract (qualified, with instantiation)
	Hyps   []*Term
	Goal   *Term
	Hints  []*Term // terms to seed the e-graph with
	Mode   string  // "" (int+seq prelude) or "bv" (raw text in Raw)
	Raw    string  // complete SMT-LIB text for raw obligations (lemma files)
	Meta   map[string]string
	Kind   string // safe / ensures / loop-entry / loop-preserved / variant / pre / lemma / frame ...
	Detail string // human readable: what is being proved

	// results
	Status   string // "unsat" (discharged) | "trivial" | "sat" | "unknown" | "timeout" | "error"
	Backend  string
	Seconds  float64
	FirstTry string `json:"-"`
	Closure  bool   `json:"-"` // generated for the closure of contracts, not by the property's own plan
	Output   string
	Frame    bool // decided by the frame engine, not by SMT
	Canary   bool // vacuity canary: the goal is false, the obligation must NOT be discharged
}

func (o *Obligation) Discharged() bool { return o.Status == "unsat" || o.Status == "trivial" }

var preludeText string
var preludeDecls map[string]bool

func loadPrelude(dir string) error {
	b, err := os.ReadFile(filepath.Join(dir, "prelude", "prelude.smt2"))
	if err != nil {
		return err
	}
	preludeText = string(b)
	preludeDecls = map[string]bool{}
	re := regexp.MustCompile(`\((?:declare-fun|define-fun|declare-sort)\s+([^\s()]+)`)
	for _, m := range re.FindAllStringSubmatch(preludeText, -1) {
		preludeDecls[m[1]] = true
	}
	return nil
}

func declsFor(terms []*Term) string {
	vars := map[string]*Term{}
	apps := map[string]*Term{}
	for _, t := range terms {
		FreeVars(t, vars)
		CollectApps(t, apps)
	}
	var names []string
	for n := range vars {
		names = append(names, n)
	}
	sort.Strings(names)
	var b strings.Builder
	for _, n := range names {
		fmt.Fprintf(&b, "(declare-fun %s () %s)\n", smtName(n), vars[n].Sort)
	}
	names = names[:0]
	for n := range apps {
		if !preludeDecls[n] {
			names = append(names, n)
		}
	}
	sort.Strings(names)
	for _, n := range names {
		a := apps[n]
		var as []string
		for _, x := range a.Args {
			as = append(as, x.Sort.String())
		}
		fmt.Fprintf(&b, "(declare-fun %s (%s) %s)\n", smtName(n), strings.Join(as, " "), a.Sort)
	}
	return b.String()
}

// extra axioms contributed by proved lemmas / tables (set by the driver)
var extraAxioms []string

func (o *Obligation) SMTBody() string {
	if o.Raw != "" {
		return o.Raw
	}
	var b strings.Builder
	b.WriteString(preludeText)
	for _, a := range extraAxioms {
		b.WriteString(a)
		b.WriteString("\n")
	}
	all := append(append([]*Term{}, o.Hyps...), o.Goal)
	all = append(all, o.Hints...)
	b.WriteString(declsFor(all))
	for _, h := range o.Hyps {
		fmt.Fprintf(&b, "(assert %s)\n", h.SMT())
	}
	for _, h := range o.Hints {
		// hint / hints are otherwise unconstrained predicates: asserting them on a term is harmless and
		// keeps the term in the E-graph (seeds quantifier instantiation)
		if h.Sort == SSeq {
			fmt.Fprintf(&b, "(assert (hints %s))\n", h.SMT())
		} else if h.Sort == SInt {
			fmt.Fprintf(&b, "(assert (hint %s))\n", h.SMT())
		}
	}
	fmt.Fprintf(&b, "(assert (not %s))\n", o.Goal.SMT())
	b.WriteString("(check-sat)\n")
	return b.String()
}

type solverSpec struct {
	name string
	cmd  func(file string, timeout int, seed int) []string
	head string
}

var solvers = []solverSpec{
	{"z3-4.8.12", func(f string, t, seed int) []string {
		return []string{"/usr/bin/z3", fmt.Sprintf("-T:%d", t), fmt.Sprintf("smt.random_seed=%d", seed), "auto_config=false", "smt.mbqi=false", f}
	}, ""},
	{"z3-5.1.0", func(f string, t, seed int) []string {
		return []string{"z3-new", fmt.Sprintf("-T:%d", t), fmt.Sprintf("smt.random_seed=%d", seed), "auto_config=false", "smt.mbqi=false", f}
	}, ""},
	{"cvc5-1.0", func(f string, t, seed int) []string {
		return []string{"cvc5", fmt.Sprintf("--tlimit=%d", t*1000), fmt.Sprintf("--seed=%d", seed), "--lang=smt2", f}
	}, "(set-logic ALL)\n"},
}

type solveCfg struct {
	timeout  int // seconds
	seed     int
	useCvc5  bool
	needTwo  bool // thorough: record agreement
	scratch  string
	parallel int
	retried  bool
	cacheDir string
}

func runOne(ctx context.Context, sp solverSpec, body string, cfg *solveCfg, id int) (string, string, float64) {
	f := filepath.Join(cfg.scratch, fmt.Sprintf("o%d-%s.smt2", id, sp.name))
	if err := os.WriteFile(f, []byte(sp.head+body), 0o644); err != nil {
		return "error", err.Error(), 0
	}
	defer os.Remove(f)
	args := sp.cmd(f, cfg.timeout, cfg.seed)
	t0 := time.Now()
	cctx, cancel := context.WithTimeout(ctx, time.Duration(cfg.timeout+2)*time.Second)
	defer cancel()
	cmd := exec.CommandContext(cctx, args[0], args[1:]...)
	var out bytes.Buffer
	cmd.Stdout = &out
	cmd.Stderr = &out
	_ = cmd.Run()
	dt := time.Since(t0).Seconds()
	s := strings.TrimSpace(out.String())
	first := s
	for _, ln := range strings.Split(s, "\n") {
		ln = strings.TrimSpace(ln)
		if ln == "unsat" || ln == "sat" || strings.HasPrefix(ln, "unknown") || ln == "timeout" {
			first = ln
			break
		}
	}
	switch {
	case first == "unsat":
		return "unsat", s, dt
	case first == "sat":
		return "sat", s, dt
	case strings.HasPrefix(first, "unknown"), strings.Contains(first, "timeout"):
		if dt >= float64(cfg.timeout)-0.5 {
			return "timeout", s, dt
		}
		return "unknown", s, dt
	case ctx.Err() != nil:
		return "cancelled", s, dt
	case cctx.Err() != nil:
		return "timeout", s, dt
	}
	if len(s) > 400 {
		s = s[:400]
	}
	return "error", s, dt
}

var freshTok = regexp.MustCompile(`[^\s()|]+![0-9]+`)

// canonicalQuery renames the fresh symbols of a query (prefix!N, numbered globally in generation order) by order of
// first appearance. Two queries with the same canonical text differ only in the names of their unknowns, so an
// `unsat` for one is an `unsat` for the other; the solvers are always given the original text.
func canonicalQuery(body string) string {
	m := map[string]string{}
	return freshTok.ReplaceAllStringFunc(body, func(t string) string {
		if r, ok := m[t]; ok {
			return r
		}
		i := strings.LastIndexByte(t, '!')
		r := fmt.Sprintf("%s!c%d", t[:i], len(m)+1)
		m[t] = r
		return r
	})
}

var oblCounter int
var oblMu sync.Mutex

// discharge runs the solver race on one obligation.
func discharge(o *Obligation, cfg *solveCfg) {
	if o.Status != "" {
		return
	}
	if o.Raw == "" && o.Goal.IsTrue() {
		o.Status, o.Backend = "trivial", "gocv-normaliser"
		return
	}
	body := o.SMTBody()
	// Answers to byte-identical queries are reused within and across the checks of the quick tier (every plan
	// re-proves the library and schema contracts it rests on, so the twenty checks share most of their queries).
	// The key is the SHA-256 of the complete query text (prelude included); only `unsat` is stored. The thorough tier
	// never reads the cache.
	var ckey string
	if cfg.cacheDir != "" {
		h := sha256.Sum256([]byte(canonicalQuery(body)))
		ckey = hex.EncodeToString(h[:])
		if b, err := os.ReadFile(filepath.Join(cfg.cacheDir, ckey[:2], ckey)); err == nil && o.Closure && strings.HasPrefix(string(b), "unsat ") {
			o.Status, o.Backend, o.Seconds = "unsat", "cache("+strings.TrimSpace(strings.TrimPrefix(string(b), "unsat "))+")", 0
			o.Output = "answer reused: an identical query (sha256 " + ckey[:16] + "…) was answered unsat by " + strings.TrimSpace(strings.TrimPrefix(string(b), "unsat ")) + " earlier"
			return
		}
	}
	defer func() {
		if ckey != "" && o.Status == "unsat" && !strings.HasPrefix(o.Backend, "cache(") {
			d := filepath.Join(cfg.cacheDir, ckey[:2])
			if os.MkdirAll(d, 0o755) == nil {
				tmp := filepath.Join(d, fmt.Sprintf(".%s.%d", ckey, os.Getpid()))
				if os.WriteFile(tmp, []byte("unsat "+o.Backend+"\n"), 0o644) == nil {
					os.Rename(tmp, filepath.Join(d, ckey))
				}
			}
		}
	}()
	oblMu.Lock()
	oblCounter++
	id := oblCounter
	oblMu.Unlock()
	ctx, cancel := context.WithCancel(context.Background())
	defer cancel()
	type res struct {
		sp          string
		status, out string
		dt          float64
	}
	n := 2
	if cfg.useCvc5 {
		n = 3
	}
	ch := make(chan res, n)
	for i := 0; i < n; i++ {
		sp := solvers[i]
		go func() {
			st, out, dt := runOne(ctx, sp, body, cfg, id)
			ch <- res{sp.name, st, out, dt}
		}()
	}
	var outs []string
	best := ""
	for i := 0; i < n; i++ {
		r := <-ch
		outs = append(outs, fmt.Sprintf("%s: %s (%.2fs)", r.sp, r.status, r.dt))
		if r.status == "unsat" {
			o.Status, o.Backend, o.Seconds = "unsat", r.sp, r.dt
			if !cfg.needTwo {
				cancel()
				o.Output = strings.Join(outs, "; ")
				return
			}
			continue
		}
		if r.status == "sat" && best != "sat" {
			best = "sat"
			o.Output = r.out
		} else if best == "" || (best == "error" && r.status != "error") {
			best = r.status
		}
		if r.dt > o.Seconds {
			o.Seconds = r.dt
		}
	}
	if o.Status == "unsat" {
		o.Output = strings.Join(outs, "; ")
		return
	}
	o.Status = best
	o.Output = strings.Join(outs, "; ") + "\n" + o.Output
}

func dischargeAll(obs []*Obligation, cfg *solveCfg) {
	sem := make(chan struct{}, cfg.parallel)
	var wg sync.WaitGroup
	for _, o := range obs {
		if o.Status != "" {
			continue
		}
		wg.Add(1)
		sem <- struct{}{}
		go func(o *Obligation) {
			defer wg.Done()
			defer func() { <-sem }()
			discharge(o, cfg)
		}(o)
	}
	wg.Wait()
	// An obligation on which every solver ran into the wall-clock limit is tried once more, a few at a time and
	// with four times the limit: on a busy machine a true goal must not turn into an alarm. (A goal the solvers
	// answer `unknown` or `sat` is not retried; at most 16 are, so a broken function does not cost minutes.)
	if cfg.retried {
		return
	}
	var late []*Obligation
	for _, o := range obs {
		if o.Status == "timeout" {
			late = append(late, o)
		}
	}
	if len(late) == 0 || len(late) > 16 {
		return
	}
	cfg2 := *cfg
	cfg2.timeout, cfg2.parallel, cfg2.retried = cfg.timeout*4, 4, true
	for _, o := range late {
		o.FirstTry = o.Output
		o.Status, o.Output, o.Seconds = "", "", 0
	}
	dischargeAll(late, &cfg2)
	for _, o := range late {
		o.Output = "first attempt timed out (" + strings.SplitN(o.FirstTry, "\n", 2)[0] + "); retried with a limit of " + fmt.Sprint(cfg2.timeout) + " s: " + o.Output
	}
}
