package main

// Contract files: //@ blocks in comment-only Go files (build tag verif) next to the code.
// See DESIGN.md Appendix B for the grammar.

import (
	"fmt"
	"math/big"
	"os"
	"path/filepath"
	"regexp"
	"strconv"
	"strings"
	"unicode"
)

type Expr struct {
	Kind string // num ident call old entry field index slice un bin forall result
	Name string
	Num  *big.Int
	Args []*Expr
	Src  string
}

func (e *Expr) String() string {
	if e.Src != "" {
		return e.Src
	}
	return e.Kind + ":" + e.Name
}

type Behavior struct {
	Name    string
	Props   []string
	Ghosts  []GhostDecl
	Assumes []*Expr
	Ensures []*Expr
	Using   []string
}

type GhostDecl struct {
	Name string
	Sort Sort
}

type LoopSpec struct {
	Invariants []LoopInv
	Decreases  *Expr
}

type LoopInv struct {
	Behavior string // "" = all
	E        *Expr
}

type CallGhost struct {
	Ordinal  int    // n-th call (1-based) of Callee in source order
	Callee   string // short name
	Behavior string
	Binds    map[string]*Expr
}

type Hole struct {
	Name   string
	Values []string
	Pinned string
	Props  []string
}

type FuncContract struct {
	Params     []string // parameter names the contract uses, bound by position
	Name       string   // "WriteBasicTypeList" or "(*SseBinChecksumService).Calc"
	Pkg        string
	Mode       string
	Requires   []*Expr
	Canon      []*Expr // round-trip domain contributed by a writer
	Ensures    []*Expr // unconditional
	Props      []string
	Behaviors  []*Behavior
	Loops      map[int]*LoopSpec
	CallGhost  []CallGhost
	Holes      []Hole
	Assigns    []string
	Fresh      []string
	Reads      []string
	Alloc      map[string]*Expr // "success","failure"
	Pure       bool
	Trusted    bool
	Format     *Expr // the wire format term this primitive writes / reads (for layout extraction)
	FormatKind string
	Lines      []string
}

type Lemma struct {
	Name     string
	Props    []string
	Params   []GhostDecl
	Requires []*Expr
	Ensures  []*Expr
	Induct   *Expr
	Triggers []*Expr
	Using    []string
	Hints    []*Expr
	Raw      string // file name of a raw smt2 lemma
}

type LayoutAtom struct {
	Kind string   // int fixed pstr ilist flist slist olist part dyn lenof cksum
	Args []string // raw args
}

type LayoutPath struct {
	Key   string
	Segs  []*Expr
	Posts []*Expr
}

type DynSpec struct {
	Field, Key, Table string
	Fills             bool // the encoder creates the part from the key when the caller left it nil
}

type Layout struct {
	Dyns      []DynSpec
	Type      string
	Proto     string
	Order     string
	Frame     bool
	FrameInfo map[string]string
	Atoms     []LayoutAtom
	Paths     []*LayoutPath
}

type Table struct {
	Name    string
	KeyType string
	Entries [][2]string // key, type
}

type ContractFile struct {
	Path    string
	Pkg     string
	Funcs   map[string]*FuncContract
	Lemmas  []*Lemma
	Layouts map[string]*Layout
	Tables  map[string]*Table
	Order   []string
}

// ---------------------------------------------------------------- lexer / parser

type tok struct {
	k string // num id op str eof
	s string
}

func lex(src string) ([]tok, error) {
	var out []tok
	i := 0
	for i < len(src) {
		c := src[i]
		switch {
		case c == ' ' || c == '\t':
			i++
		case unicode.IsDigit(rune(c)):
			j := i
			if c == '0' && i+1 < len(src) && (src[i+1] == 'x' || src[i+1] == 'X') {
				j = i + 2
				for j < len(src) && strings.ContainsRune("0123456789abcdefABCDEF", rune(src[j])) {
					j++
				}
			} else {
				for j < len(src) && unicode.IsDigit(rune(src[j])) {
					j++
				}
			}
			out = append(out, tok{"num", src[i:j]})
			i = j
		case c == '\'':
			j := strings.IndexByte(src[i+1:], '\'')
			if j < 0 {
				return nil, fmt.Errorf("unterminated char literal")
			}
			body := src[i+1 : i+1+j]
			v, err := strconv.Unquote("'" + body + "'")
			_ = v
			if err != nil {
				return nil, err
			}
			r := []rune(v)
			out = append(out, tok{"num", strconv.Itoa(int(r[0]))})
			i += j + 2
		case c == '"':
			j := i + 1
			for j < len(src) && src[j] != '"' {
				if src[j] == '\\' {
					j++
				}
				j++
			}
			s, err := strconv.Unquote(src[i : j+1])
			if err != nil {
				return nil, err
			}
			out = append(out, tok{"str", s})
			i = j + 1
		case c == '_' || c == '\\' || c == '#' || c == '?' || unicode.IsLetter(rune(c)):
			j := i + 1
			for j < len(src) && (src[j] == '_' || unicode.IsLetter(rune(src[j])) || unicode.IsDigit(rune(src[j]))) {
				j++
			}
			out = append(out, tok{"id", src[i:j]})
			i = j
		default:
			for _, op := range []string{"==>", "<==>", "++", "==", "!=", "<=", ">=", "&&", "||", "..", "(", ")", "[", "]", ",", ":", ".", "+", "-", "*", "/", "%", "<", ">", "!", "=", "{", "}"} {
				if strings.HasPrefix(src[i:], op) {
					out = append(out, tok{"op", op})
					i += len(op)
					goto next
				}
			}
			return nil, fmt.Errorf("bad character %q in %q", c, src)
		next:
		}
	}
	out = append(out, tok{"eof", ""})
	return out, nil
}

type parser struct {
	toks []tok
	p    int
	src  string
}

func (p *parser) peek() tok { return p.toks[p.p] }
func (p *parser) next() tok { t := p.toks[p.p]; p.p++; return t }
func (p *parser) accept(s string) bool {
	if p.peek().k == "op" && p.peek().s == s {
		p.p++
		return true
	}
	return false
}
func (p *parser) expect(s string) {
	if !p.accept(s) {
		panic(fmt.Sprintf("expected %q at token %d (%q) in %q", s, p.p, p.peek().s, p.src))
	}
}

func ParseExpr(src string) (e *Expr, err error) {
	defer func() {
		if r := recover(); r != nil {
			err = fmt.Errorf("%v", r)
		}
	}()
	toks, err := lex(src)
	if err != nil {
		return nil, err
	}
	p := &parser{toks: toks, src: src}
	e = p.parseImpl()
	if p.peek().k != "eof" {
		panic(fmt.Sprintf("trailing tokens at %q in %q", p.peek().s, src))
	}
	e.Src = strings.TrimSpace(src)
	return e, nil
}

func bin(op string, a, b *Expr) *Expr { return &Expr{Kind: "bin", Name: op, Args: []*Expr{a, b}} }

func (p *parser) parseImpl() *Expr {
	l := p.parseOr()
	if p.accept("==>") {
		r := p.parseImpl()
		return bin("==>", l, r)
	}
	return l
}
func (p *parser) parseOr() *Expr {
	l := p.parseAnd()
	for p.accept("||") {
		l = bin("||", l, p.parseAnd())
	}
	return l
}
func (p *parser) parseAnd() *Expr {
	l := p.parseCmp()
	for p.accept("&&") {
		l = bin("&&", l, p.parseCmp())
	}
	return l
}
func (p *parser) parseCmp() *Expr {
	l := p.parseCat()
	for {
		t := p.peek()
		if t.k == "op" && (t.s == "==" || t.s == "!=" || t.s == "<" || t.s == "<=" || t.s == ">" || t.s == ">=") {
			p.next()
			r := p.parseCat()
			l = bin(t.s, l, r)
			continue
		}
		return l
	}
}
func (p *parser) parseCat() *Expr {
	l := p.parseAdd()
	for p.accept("++") {
		l = bin("++", l, p.parseAdd())
	}
	return l
}
func (p *parser) parseAdd() *Expr {
	l := p.parseMul()
	for {
		if p.accept("+") {
			l = bin("+", l, p.parseMul())
		} else if p.accept("-") {
			l = bin("-", l, p.parseMul())
		} else {
			return l
		}
	}
}
func (p *parser) parseMul() *Expr {
	l := p.parseUn()
	for {
		if p.accept("*") {
			l = bin("*", l, p.parseUn())
		} else if p.accept("/") {
			l = bin("/", l, p.parseUn())
		} else if p.accept("%") {
			l = bin("%", l, p.parseUn())
		} else {
			return l
		}
	}
}
func (p *parser) parseUn() *Expr {
	if p.accept("!") {
		return &Expr{Kind: "un", Name: "!", Args: []*Expr{p.parseUn()}}
	}
	if p.accept("-") {
		return &Expr{Kind: "un", Name: "-", Args: []*Expr{p.parseUn()}}
	}
	return p.parsePost()
}
func (p *parser) parsePost() *Expr {
	e := p.parsePrim()
	for {
		switch {
		case p.accept("."):
			t := p.next()
			e = &Expr{Kind: "field", Name: t.s, Args: []*Expr{e}}
		case p.accept("["):
			var lo, hi *Expr
			if p.accept(":") {
				if !p.accept("]") {
					hi = p.parseImpl()
					p.expect("]")
				}
				e = &Expr{Kind: "slice", Args: []*Expr{e, lo, hi}}
				continue
			}
			lo = p.parseImpl()
			if p.accept(":") {
				if !p.accept("]") {
					hi = p.parseImpl()
					p.expect("]")
				}
				e = &Expr{Kind: "slice", Args: []*Expr{e, lo, hi}}
				continue
			}
			p.expect("]")
			e = &Expr{Kind: "index", Args: []*Expr{e, lo}}
		default:
			return e
		}
	}
}
func (p *parser) parsePrim() *Expr {
	t := p.next()
	switch t.k {
	case "num":
		v := new(big.Int)
		if _, ok := v.SetString(t.s, 0); !ok {
			panic("bad number " + t.s)
		}
		return &Expr{Kind: "num", Num: v}
	case "str":
		return &Expr{Kind: "str", Name: t.s}
	case "id":
		if t.s == "forall" || t.s == "exists" {
			v := p.next().s
			if p.next().s != "in" {
				panic("expected 'in' after quantifier variable")
			}
			lo := p.parseAdd()
			p.expect("..")
			hi := p.parseAdd()
			p.expect(":")
			body := p.parseImpl()
			return &Expr{Kind: t.s, Name: v, Args: []*Expr{lo, hi, body}}
		}
		if p.accept("(") {
			var args []*Expr
			if !p.accept(")") {
				for {
					args = append(args, p.parseImpl())
					if p.accept(")") {
						break
					}
					p.expect(",")
				}
			}
			switch t.s {
			case "old":
				return &Expr{Kind: "old", Args: args}
			case "\\entry":
				return &Expr{Kind: "entry", Args: args}
			}
			return &Expr{Kind: "call", Name: t.s, Args: args}
		}
		return &Expr{Kind: "ident", Name: t.s}
	case "op":
		if t.s == "(" {
			e := p.parseImpl()
			p.expect(")")
			return e
		}
	}
	panic(fmt.Sprintf("unexpected token %q in %q", t.s, p.src))
}

// ---------------------------------------------------------------- file parser

var reProps = regexp.MustCompile(`\[((?:C\d+\s*)+)\]`)

func takeProps(s string) (string, []string) {
	m := reProps.FindStringSubmatchIndex(s)
	if m == nil {
		return s, nil
	}
	props := strings.Fields(s[m[2]:m[3]])
	return strings.TrimSpace(s[:m[0]] + s[m[1]:]), props
}

func mustExpr(s string, where string) *Expr {
	e, err := ParseExpr(s)
	if err != nil {
		panic(fmt.Sprintf("%s: %v", where, err))
	}
	return e
}

func sortOf(s string) Sort {
	switch s {
	case "seq", "Seq":
		return SSeq
	case "bool", "Bool":
		return SBool
	}
	return SInt
}

func parseGhosts(s string) []GhostDecl {
	var out []GhostDecl
	for _, part := range strings.Split(s, ",") {
		part = strings.TrimSpace(part)
		if part == "" {
			continue
		}
		nm, st := part, "int"
		if i := strings.IndexByte(part, ':'); i >= 0 {
			nm, st = strings.TrimSpace(part[:i]), strings.TrimSpace(part[i+1:])
		}
		out = append(out, GhostDecl{nm, sortOf(st)})
	}
	return out
}

func ParseContractFile(path string) (cf *ContractFile, err error) {
	defer func() {
		if r := recover(); r != nil {
			err = fmt.Errorf("%s: %v", path, r)
		}
	}()
	b, err := os.ReadFile(path)
	if err != nil {
		return nil, err
	}
	cf = &ContractFile{Path: path, Funcs: map[string]*FuncContract{}, Layouts: map[string]*Layout{}, Tables: map[string]*Table{}}
	var lines []string
	for _, ln := range strings.Split(string(b), "\n") {
		t := strings.TrimSpace(ln)
		if strings.HasPrefix(t, "package ") {
			cf.Pkg = strings.TrimSpace(strings.TrimPrefix(t, "package "))
		}
		if !strings.HasPrefix(t, "//@") {
			continue
		}
		t = strings.TrimSpace(strings.TrimPrefix(t, "//@"))
		if i := strings.Index(t, " -- "); i >= 0 {
			t = strings.TrimSpace(t[:i])
		}
		if t == "" {
			continue
		}
		lines = append(lines, t)
	}
	var fc *FuncContract
	var bh *Behavior
	var lp *LoopSpec
	var lm *Lemma
	var ly *Layout
	var tb *Table
	var pendingGhosts []GhostDecl
	reset := func() { fc, bh, lp, lm, ly, tb, pendingGhosts = nil, nil, nil, nil, nil, nil, nil }
	for n, t := range lines {
		where := fmt.Sprintf("%s:@%d", filepath.Base(path), n+1)
		word, rest := t, ""
		if i := strings.IndexAny(t, " \t"); i >= 0 {
			word, rest = t[:i], strings.TrimSpace(t[i+1:])
		}
		switch word {
		case "func":
			reset()
			rest, props := takeProps(rest)
			name := rest
			if i := strings.IndexByte(name, '['); i >= 0 {
				name = strings.TrimSpace(name[:i])
			}
			var params []string
			// optional parameter list "Name(p1, p2)": contract names bind to the parameters by position
			if j := strings.LastIndexByte(name, '('); j > 0 && strings.HasSuffix(name, ")") && !strings.HasPrefix(name[j:], "(*") {
				for _, p := range strings.Split(name[j+1:len(name)-1], ",") {
					params = append(params, strings.TrimSpace(p))
				}
				name = strings.TrimSpace(name[:j])
			}
			fc = &FuncContract{Name: name, Pkg: cf.Pkg, Loops: map[int]*LoopSpec{}, Alloc: map[string]*Expr{}, Props: props, Params: params}
			cf.Funcs[name] = fc
			cf.Order = append(cf.Order, name)
			continue
		case "lemma":
			reset()
			rest, props := takeProps(rest)
			name := rest
			params := ""
			if i := strings.IndexByte(rest, '('); i >= 0 {
				name = strings.TrimSpace(rest[:i])
				params = rest[i+1 : strings.LastIndexByte(rest, ')')]
			}
			lm = &Lemma{Name: name, Props: props, Params: parseGhosts(params)}
			cf.Lemmas = append(cf.Lemmas, lm)
			continue
		case "layout":
			reset()
			// layout Type [proto x, BE, frame]
			i := strings.IndexByte(rest, '[')
			ly = &Layout{Type: strings.TrimSpace(rest[:i]), FrameInfo: map[string]string{}}
			for _, f := range strings.Split(strings.Trim(rest[i:], "[]"), ",") {
				f = strings.TrimSpace(f)
				switch {
				case strings.HasPrefix(f, "proto "):
					ly.Proto = strings.TrimSpace(f[6:])
				case f == "BE" || f == "LE":
					ly.Order = f
				case f == "frame" || strings.HasPrefix(f, "frame "):
					ly.Frame = true
					for _, kv := range strings.Fields(strings.TrimPrefix(f, "frame")) {
						if j := strings.IndexByte(kv, '='); j > 0 {
							ly.FrameInfo[kv[:j]] = kv[j+1:]
						}
					}
				}
			}
			cf.Layouts[ly.Type] = ly
			continue
		case "table":
			reset()
			parts := strings.Split(rest, ":")
			tb = &Table{Name: strings.TrimSpace(parts[0]), KeyType: strings.TrimSpace(parts[1])}
			cf.Tables[tb.Name] = tb
			continue
		}
		switch {
		case ly != nil:
			switch word {
			case "dyn":
				f := strings.Fields(rest) // dyn Field by Key in table [fills]
				if len(f) != 5 && !(len(f) == 6 && f[5] == "fills") {
					panic(where + ": dyn <Field> by <Key> in <table> [fills]")
				}
				ly.Dyns = append(ly.Dyns, DynSpec{Field: f[0], Key: f[2], Table: f[4], Fills: len(f) == 6})
			case "path":
				ly.Paths = append(ly.Paths, &LayoutPath{Key: rest})
			case "seg":
				if len(ly.Paths) == 0 {
					panic(where + ": seg outside path")
				}
				lp := ly.Paths[len(ly.Paths)-1]
				lp.Segs = append(lp.Segs, mustExpr(rest, where))
			case "post":
				if len(ly.Paths) == 0 {
					panic(where + ": post outside path")
				}
				lp := ly.Paths[len(ly.Paths)-1]
				lp.Posts = append(lp.Posts, mustExpr(rest, where))
			default:
				panic(where + ": unknown layout clause " + word)
			}
		case tb != nil:
			for _, ent := range strings.Fields(t) {
				kv := strings.SplitN(ent, "->", 2)
				if len(kv) != 2 {
					panic(where + ": bad table entry " + ent)
				}
				tb.Entries = append(tb.Entries, [2]string{kv[0], kv[1]})
			}
		case lm != nil:
			switch word {
			case "requires":
				lm.Requires = append(lm.Requires, mustExpr(rest, where))
			case "ensures":
				lm.Ensures = append(lm.Ensures, mustExpr(rest, where))
			case "induction":
				lm.Induct = mustExpr(strings.TrimPrefix(rest, "on "), where)
			case "trigger":
				lm.Triggers = append(lm.Triggers, mustExpr(rest, where))
			case "hint":
				lm.Hints = append(lm.Hints, mustExpr(rest, where))
			case "using":
				lm.Using = append(lm.Using, strings.Fields(rest)...)
			case "raw":
				lm.Raw = rest
			default:
				panic(where + ": unknown lemma clause " + word)
			}
		case fc != nil:
			fc.Lines = append(fc.Lines, t)
			switch word {
			case "mode":
				fc.Mode = rest
			case "pure":
				fc.Pure = true
			case "trusted":
				fc.Trusted = true
			case "requires":
				fc.Requires = append(fc.Requires, mustExpr(rest, where))
			case "canon":
				fc.Canon = append(fc.Canon, mustExpr(rest, where))
			case "format":
				fc.Format = mustExpr(rest, where)
				fc.FormatKind = fc.Format.Name
			case "assigns":
				fc.Assigns = append(fc.Assigns, strings.Fields(strings.ReplaceAll(rest, ",", " "))...)
			case "reads":
				fc.Reads = append(fc.Reads, strings.Fields(strings.ReplaceAll(rest, ",", " "))...)
			case "fresh":
				fc.Fresh = append(fc.Fresh, strings.Fields(strings.ReplaceAll(rest, ",", " "))...)
			case "ghost":
				pendingGhosts = parseGhosts(rest)
			case "hole":
				// hole oc in {BE,LE} pinned LE [C02 C03]
				r2, props := takeProps(rest)
				f := strings.Fields(strings.NewReplacer("{", " ", "}", " ", ",", " ").Replace(r2))
				h := Hole{Name: f[0], Props: props}
				for i := 2; i < len(f); i++ {
					if f[i] == "pinned" {
						h.Pinned = f[i+1]
						break
					}
					h.Values = append(h.Values, f[i])
				}
				fc.Holes = append(fc.Holes, h)
			case "behavior":
				r2, props := takeProps(rest)
				bh = &Behavior{Name: strings.TrimSpace(strings.TrimSuffix(strings.TrimSpace(r2), ":")), Props: props, Ghosts: pendingGhosts}
				pendingGhosts = nil
				lp = nil
				fc.Behaviors = append(fc.Behaviors, bh)
			case "assumes":
				if bh == nil {
					panic(where + ": assumes outside behavior")
				}
				bh.Assumes = append(bh.Assumes, mustExpr(rest, where))
			case "using":
				if bh != nil {
					bh.Using = append(bh.Using, strings.Fields(rest)...)
				}
			case "ensures":
				if bh != nil {
					bh.Ensures = append(bh.Ensures, mustExpr(rest, where))
				} else {
					fc.Ensures = append(fc.Ensures, mustExpr(rest, where))
				}
			case "loop":
				k, err := strconv.Atoi(strings.TrimSuffix(rest, ":"))
				if err != nil {
					panic(where + ": bad loop ordinal")
				}
				lp = &LoopSpec{}
				fc.Loops[k] = lp
				bh = nil
			case "invariant":
				if lp == nil {
					panic(where + ": invariant outside loop")
				}
				b := ""
				if strings.HasPrefix(rest, "(") {
					j := strings.IndexByte(rest, ')')
					cand := rest[1:j]
					if regexp.MustCompile(`^[a-z]+$`).MatchString(cand) {
						b = cand
						rest = strings.TrimSpace(rest[j+1:])
					}
				}
				lp.Invariants = append(lp.Invariants, LoopInv{b, mustExpr(rest, where)})
			case "decreases":
				lp.Decreases = mustExpr(rest, where)
			case "call":
				// call 1 ReadBasicType (rt): v = vs[i], r = flat(...) ++ r
				f := strings.SplitN(rest, ":", 2)
				hd := strings.Fields(f[0])
				ord, _ := strconv.Atoi(hd[0])
				cg := CallGhost{Ordinal: ord, Callee: hd[1], Binds: map[string]*Expr{}}
				if len(hd) > 2 {
					cg.Behavior = strings.Trim(hd[2], "()")
				}
				for _, bd := range splitTop(f[1], ';') {
					kv := strings.SplitN(bd, ":=", 2)
					cg.Binds[strings.TrimSpace(kv[0])] = mustExpr(kv[1], where)
				}
				fc.CallGhost = append(fc.CallGhost, cg)
			case "alloc":
				// alloc success <e> failure <e>
				i := strings.Index(rest, "failure")
				fc.Alloc["success"] = mustExpr(strings.TrimSpace(strings.TrimPrefix(rest[:i], "success")), where)
				fc.Alloc["failure"] = mustExpr(strings.TrimSpace(rest[i+7:]), where)
			default:
				panic(where + ": unknown clause " + word)
			}
		default:
			panic(where + ": clause outside block: " + t)
		}
	}
	return cf, nil
}

func splitTop(s string, sep byte) []string {
	var out []string
	depth := 0
	last := 0
	for i := 0; i < len(s); i++ {
		switch s[i] {
		case '(', '[', '{':
			depth++
		case ')', ']', '}':
			depth--
		default:
			if s[i] == sep && depth == 0 {
				out = append(out, s[last:i])
				last = i + 1
			}
		}
	}
	if strings.TrimSpace(s[last:]) != "" {
		out = append(out, s[last:])
	}
	return out
}

func splitAtoms(s string) []LayoutAtom {
	var out []LayoutAtom
	for _, a := range splitTop(s, ' ') {
		a = strings.TrimSpace(a)
		if a == "" {
			continue
		}
		i := strings.IndexByte(a, '(')
		if i < 0 {
			panic("bad layout atom " + a)
		}
		var args []string
		for _, x := range splitTop(a[i+1:len(a)-1], ',') {
			args = append(args, strings.TrimSpace(x))
		}
		out = append(out, LayoutAtom{Kind: a[:i], Args: args})
	}
	return out
}
