package main

// The verifier: loads /repo (go/packages + go/ssa, build tag verif), the contract files, and
// generates the obligations of a function against its contract.

import (
	"fmt"
	"go/types"
	"math/big"
	"os"
	"path/filepath"
	"sort"
	"strings"

	"golang.org/x/tools/go/packages"
	"golang.org/x/tools/go/ssa"
	"golang.org/x/tools/go/ssa/ssautil"
)

const modPath = "github.com/xinchentechnote/fin-proto-go"

type Verifier struct {
	repo            string
	verifDir        string
	prog            *ssa.Program
	pkgs            map[string]*ssa.Package
	lpkgs           map[string]*packages.Package
	files           map[string]*ContractFile // by package path
	contracts       map[string]*FuncContract // pkgpath + "." + short name
	tableFuncs      map[string]*TableInfo
	tables          map[string]*TableInfo // by pkgpath + "." + table name
	assumptionsUsed map[string]bool
	trustedUsed     map[string]bool
	globalAccess    map[string]map[string]map[string]bool // function -> global -> {read,write}
	holeRes         map[string]map[string]string
	tier            string
	globals         map[*ssa.Global]*Obj
	contractSource  map[string]string // package path -> "repo" | "mirror"
	loadSeconds     float64
	tableMode       string // "pinned" or "extracted"
	svcTypes        map[string]*types.Named
	checkAlloc      bool
	allocK          map[string][2]int64
	minW            map[string]int64
	byTag           map[string]*MsgType
	tblTerms        map[string]tblRef
	extracted       map[string]*ExtractedTable
	initHooks       []func(x *Exec, st *State, o *Obj, k Value, bv *Term, val Value)
}

type TableInfo struct {
	Pkg      string
	T        *Table
	Var      string // package-level map variable
	Factory  string // New...MessageBy...
	Registry string // Registry...Factory
}

func (V *Verifier) inRepo(path string) bool {
	return path == modPath || strings.HasPrefix(path, modPath+"/")
}

func (V *Verifier) contractFor(pkgPath, short string) *FuncContract {
	return V.contracts[pkgPath+"."+short]
}

func (V *Verifier) noteGlobal(fn, global, how string) {
	if V.globalAccess[fn] == nil {
		V.globalAccess[fn] = map[string]map[string]bool{}
	}
	if V.globalAccess[fn][global] == nil {
		V.globalAccess[fn][global] = map[string]bool{}
	}
	V.globalAccess[fn][global][how] = true
}

func (V *Verifier) noteMapUpdate(x *Exec, st *State, o *Obj, k Value, bv *Term, val Value) {
	for _, h := range V.initHooks {
		h(x, st, o, k, bv, val)
	}
}

func (V *Verifier) algorithmOf(t types.Type) *Term {
	n := namedOf(t)
	if n == nil {
		return FreshSeq("alg?")
	}
	return App("alg_"+n.Obj().Name(), SSeq)
}

// globalObj returns the heap object standing for a package-level variable of the repository.
func (V *Verifier) globalObj(st *State, x *Exec, g *ssa.Global) *Obj {
	o := V.globals[g]
	if o == nil {
		o = newObj("cell", g.Type().(*types.Pointer).Elem(), g.Name(), "global:"+g.Name())
		V.globals[g] = o
	}
	if _, ok := st.heap[o]; !ok {
		et := g.Type().(*types.Pointer).Elem()
		var v Value
		switch u := et.Underlying().(type) {
		case *types.Map:
			m := newObj("map", et, g.Name(), "global:"+g.Name())
			st.heap[m] = &Content{MV: App("mapstate_"+g.Pkg.Pkg.Name()+"."+g.Name(), SInt)}
			v = VMap{m}
			_ = u
		default:
			v = x.symValue(st, et, g.Name(), "global:"+g.Name())
			if p, ok := v.(VPtr); ok {
				p.IsNil = False
				v = p
			}
		}
		st.heap[o] = &Content{Val: v}
	}
	return o
}

func LoadVerifier(repo, verifDir string) (*Verifier, error) {
	V := &Verifier{repo: repo, verifDir: verifDir, pkgs: map[string]*ssa.Package{}, lpkgs: map[string]*packages.Package{},
		files: map[string]*ContractFile{}, contracts: map[string]*FuncContract{}, tableFuncs: map[string]*TableInfo{}, tables: map[string]*TableInfo{},
		assumptionsUsed: map[string]bool{}, trustedUsed: map[string]bool{}, globalAccess: map[string]map[string]map[string]bool{},
		holeRes: map[string]map[string]string{}, tblTerms: map[string]tblRef{}, globals: map[*ssa.Global]*Obj{}, contractSource: map[string]string{}, extracted: map[string]*ExtractedTable{}}
	cfg := &packages.Config{
		Mode: packages.LoadAllSyntax,
		Dir:  repo,
		// no build tags: the packages are loaded in the configuration the tests and the users build (the contract
		// files, which are behind the tag verif, are comment-only and read as text); AuxCheck reports every file
		// that this configuration leaves out
		Env: append(os.Environ(), "GOFLAGS=-mod=mod", "GOPROXY=off"),
	}
	pk, err := packages.Load(cfg, "./...")
	if err != nil {
		return nil, err
	}
	var errs []string
	packages.Visit(pk, nil, func(p *packages.Package) {
		for _, e := range p.Errors {
			errs = append(errs, e.Error())
		}
	})
	if len(errs) > 0 {
		return nil, fmt.Errorf("package load errors: %s", strings.Join(errs, "; "))
	}
	prog, spkgs := ssautil.AllPackages(pk, ssa.GlobalDebug)
	prog.Build()
	V.prog = prog
	for i, p := range pk {
		if spkgs[i] != nil {
			V.pkgs[p.PkgPath] = spkgs[i]
			V.lpkgs[p.PkgPath] = p
		}
	}
	// contract files: the copy inside /repo (build tag verif) or, when absent, the mirror under /verif
	for path, p := range V.lpkgs {
		if len(p.GoFiles) == 0 {
			continue
		}
		dir := filepath.Dir(p.GoFiles[0])
		rel, _ := filepath.Rel(repo, dir)
		cand := filepath.Join(dir, "zz_contracts_verif.go")
		src := "repo"
		if _, err := os.Stat(cand); err != nil {
			cand = filepath.Join(verifDir, "contracts", "mirror", rel, "zz_contracts_verif.go")
			src = "mirror"
			if _, err := os.Stat(cand); err != nil {
				continue
			}
		}
		if src == "repo" {
			mir := filepath.Join(verifDir, "contracts", "mirror", rel, "zz_contracts_verif.go")
			if mb, err := os.ReadFile(mir); err == nil {
				if rb, err := os.ReadFile(cand); err == nil && string(mb) != string(rb) && os.Getenv("VERIF_ACCEPT_REPO_CONTRACTS") == "" {
					// the specification is the mirror committed under /verif; an edited copy in /repo is not the specification
					cand, src = mir, "mirror (the copy in /repo differs)"
				}
			}
		}
		cf, err := ParseContractFile(cand)
		if err != nil {
			return nil, err
		}
		V.files[path] = cf
		V.contractSource[path] = src
		for name, fc := range cf.Funcs {
			V.contracts[path+"."+name] = fc
		}
		for _, tb := range cf.Tables {
			ti := &TableInfo{Pkg: path, T: tb}
			V.tables[path+"."+tb.Name] = ti
		}
	}
	V.bindTables()
	return V, nil
}

// ---------------------------------------------------------------- verifying a function against its contract

type FuncTarget struct {
	Fn    *ssa.Function
	FC    *FuncContract
	Sigma Subst
	Inst  string
}

func (V *Verifier) lookupFunc(pkgPath, short string) *ssa.Function {
	p := V.pkgs[pkgPath]
	if p == nil {
		return nil
	}
	if strings.HasPrefix(short, "(") {
		// (*T).M
		i := strings.Index(short, ").")
		tn := strings.TrimPrefix(short[1:i], "*")
		mn := short[i+2:]
		t := p.Type(tn)
		if t == nil {
			return nil
		}
		return V.prog.LookupMethod(types.NewPointer(t.Type()), p.Pkg, mn)
	}
	return p.Func(short)
}

func instName(pkg *ssa.Package, short string, fn *ssa.Function, sigma Subst) string {
	name := pkg.Pkg.Name() + "." + short
	if fn.TypeParams() != nil && fn.TypeParams().Len() > 0 {
		var ts []string
		for i := 0; i < fn.TypeParams().Len(); i++ {
			tp := fn.TypeParams().At(i)
			if t, ok := sigma[tp]; ok {
				ts = append(ts, types.TypeString(t, func(p *types.Package) string { return p.Name() }))
			} else {
				ts = append(ts, tp.Obj().Name())
			}
		}
		name += "[" + strings.Join(ts, ",") + "]"
	}
	return name
}

func (V *Verifier) newExec(fn *ssa.Function, fc *FuncContract, sigma Subst, inst, run string) *Exec {
	x := &Exec{V: V, fn: fn, fc: fc, sigma: sigma, inst: inst, run: run, names: map[string]Value{}, ghosts: map[string]*Term{}, holes: map[string]string{}}
	if fc != nil {
		for _, h := range fc.Holes {
			x.holes[h.Name] = h.Pinned
		}
		if r, ok := V.holeRes[fc.Pkg+"."+fc.Name]; ok {
			for k, v := range r {
				x.holes[k] = v
			}
		}
	}
	x.findLoops()
	x.numberCalls()
	return x
}

// bindContractParams makes the parameter names written in the contract header refer to the
// function's parameters by position (the receiver, if any, is parameter 0 and is skipped when the
// header lists one name fewer), so that renaming a parameter in the code does not affect the contract.
func (x *Exec) bindContractParams(arg func(i int) Value) {
	if x.fc == nil || len(x.fc.Params) == 0 || x.fn == nil {
		return
	}
	n := len(x.fn.Params)
	off := n - len(x.fc.Params)
	if off < 0 || off > 1 {
		return
	}
	for i, name := range x.fc.Params {
		if name != "" && name != "_" {
			x.names[name] = arg(i + off)
		}
	}
}

// initialState builds the entry state: arbitrary arguments satisfying the typed-memory invariants.
func (x *Exec) initialState() *State {
	st := &State{env: map[ssa.Value]Value{}, heap: map[*Obj]*Content{}, alloc: IntC(0), entryOf: map[*ssa.BasicBlock]*State{}, variant: map[*ssa.BasicBlock]*Term{}, callOrd: map[string]int{}}
	for _, p := range x.fn.Params {
		var v Value
		pt := x.resolve(p.Type())
		if sig, ok := pt.Underlying().(*types.Signature); ok && sig.Results().Len() == 1 {
			// factory parameter (newFn func() K): by contract it returns a fresh zero K
			v = VFunc{IsNil: False, TagOf: x.tagOfType(sig.Results().At(0).Type())}
		} else {
			v = x.symValue(st, pt, p.Name(), "param:"+p.Name())
		}
		st.env[p] = v
		x.names[p.Name()] = v
	}
	x.bindContractParams(func(i int) Value { return st.env[x.fn.Params[i]] })
	return st
}

func (V *Verifier) VerifyFunction(tg FuncTarget, only map[string]bool) []*Obligation {
	var all []*Obligation
	fc := tg.FC
	runs := []string{"safe"}
	for _, b := range fc.Behaviors {
		runs = append(runs, b.Name)
	}
	for _, run := range runs {
		if only != nil && !only[run] {
			continue
		}
		x := V.newExec(tg.Fn, fc, tg.Sigma, tg.Inst, run)
		var beh *Behavior
		for _, b := range fc.Behaviors {
			if b.Name == run {
				beh = b
			}
		}
		x.beh = beh
		x.emitSafe = run == "safe"
		x.props = fc.Props
		if beh != nil && len(beh.Props) > 0 {
			x.props = beh.Props
		}
		st := x.initialState()
		ev := x.evaluator(st)
		bad := false
		for _, r := range fc.Requires {
			t, err := ev.boolTerm(r)
			if err != nil {
				x.fail(st, "contract", "requires-not-evaluable", err.Error())
				bad = true
				continue
			}
			st.assume(t)
		}
		if beh != nil {
			for _, g := range beh.Ghosts {
				x.ghosts[g.Name] = Var("ghost_"+g.Name, g.Sort)
				if g.Sort == SSeq {
					st.assume(App("bytes", SBool, x.ghosts[g.Name]))
				}
			}
			x.old = st // old() in assumes refers to the entry state
			ev = x.evaluator(st)
			for _, a := range beh.Assumes {
				t, err := ev.boolTerm(a)
				if err != nil {
					x.fail(st, "contract", "assumes-not-evaluable", err.Error())
					bad = true
					continue
				}
				st.assume(t)
			}
		}
		// an assumption buf.u == <structured term> makes the structured term the buffer's content
		for _, p := range st.pc {
			if p.Op != "=" || p.Args[0].Sort != SSeq {
				continue
			}
			for _, side := range []int{0, 1} {
				if p.Args[side].Op != "var" {
					continue
				}
				for o, c := range st.heap {
					if o.Kind == "buffer" && c.Seq != nil && Same(c.Seq, p.Args[side]) {
						st.mut(o).Seq = p.Args[1-side]
					}
				}
			}
		}
		if beh != nil {
			for _, u := range beh.Using {
				ax, err := V.lemmaAxiom(u)
				if err != nil {
					x.fail(st, "contract", "using-"+u, err.Error())
					continue
				}
				st.assume(ax)
			}
		}
		// vacuity canary: requires && assumes of this run must be satisfiable (false must not follow)
		x.obs = append(x.obs, &Obligation{Name: tg.Inst + "/" + run + "/canary(assumptions-satisfiable)", Func: tg.Inst, Kind: "canary", Canary: true, Hyps: append([]*Term{}, st.pc...), Goal: False,
			Detail: "requires and assumes of the behaviour are not contradictory"})
		x.old = st.clone()
		allocEntry := st.alloc
		x.onReturn = func(s *State, res []Value) {
			ev := x.evaluator(s)
			ev.results = res
			var ens []*Expr
			if beh != nil {
				ens = beh.Ensures
			} else {
				ens = fc.Ensures
			}
			for i, e := range ens {
				t, err := ev.boolTerm(e)
				if err != nil {
					x.oblige(s, "ensures", fmt.Sprintf("ensures#%d", i+1), False, "not evaluable: "+err.Error())
					continue
				}
				for j, cj := range conjuncts(t) {
					x.oblige(s, "ensures", fmt.Sprintf("ensures#%d.%d@%s", i+1, j+1, pathTag(s)), cj, e.String())
				}
			}
			if beh == nil && len(fc.Alloc) > 0 {
				x.allocObligations(s, res, allocEntry)
			}
			if beh == nil {
				x.lockReturn(s)
			}
			if beh == nil {
				// ownership: what a codec function returns is freshly allocated, never a view of the buffer or of an argument
				for i, r := range res {
					if sl, ok := r.(VSlice); ok && sl.Arr != nil {
						fresh := sl.Arr.Prov == "fresh" || (sl.IsNil != nil && sl.IsNil.IsTrue())
						x.obligeProps(s, "frame", fmt.Sprintf("frame/fresh-result#%d@%s", i, pathTag(s)), BoolC(fresh), "a returned slice is freshly allocated (provenance: "+sl.Arr.Prov+")", []string{"C16"})
					}
				}
			}
			if beh == nil && fc.Pure {
				for o, c0 := range x.old.heap {
					if o.Kind == "buffer" && c0.Seq != nil {
						x.oblige(s, "ensures", "pure/buffer-unchanged("+o.Name+")@"+pathTag(s), Eq(s.get(o).Seq, c0.Seq), "a pure function neither consumes nor modifies the buffer it is given")
					}
				}
			}
		}
		if !bad {
			x.execAll(st)
		}
		if x.returns == 0 && !bad && len(x.obs) == 0 {
			x.fail(st, "vacuity", "no-return-reached", "no path reaches a return")
		}
		all = append(all, x.obs...)
	}
	return all
}

func pathTag(s *State) string {
	if len(s.trace) == 0 {
		return "p"
	}
	h := hashString(strings.Join(s.trace, ","))
	return fmt.Sprintf("p%04x", h&0xffff)
}

func conjuncts(t *Term) []*Term {
	if t.Op == "and" {
		return t.Args
	}
	return []*Term{t}
}

func (x *Exec) allocObligations(s *State, res []Value, entry *Term) {
	ev := x.evaluator(s)
	ev.results = res
	var errNil *Term
	for _, r := range res {
		if e, ok := r.(VErr); ok {
			errNil = e.Nil
		}
	}
	delta := Sub(s.alloc, entry)
	if e := x.fc.Alloc["success"]; e != nil {
		if t, err := ev.intTerm(e); err == nil {
			hyp := True
			if errNil != nil {
				hyp = errNil
			}
			x.obligeProps(s, "alloc", "alloc/success@"+pathTag(s), Implies(hyp, Le(delta, t)), "allocation on success <= "+e.String(), []string{"C10"})
		}
	}
	if e := x.fc.Alloc["failure"]; e != nil && errNil != nil {
		if t, err := ev.intTerm(e); err == nil {
			x.obligeProps(s, "alloc", "alloc/failure@"+pathTag(s), Implies(Not(errNil), Le(delta, t)), "allocation on failure <= "+e.String(), []string{"C10"})
		}
	}
}

func (x *Exec) obligeProps(st *State, kind, name string, goal *Term, detail string, props []string) {
	saved := x.props
	x.props = props
	es := x.emitSafe
	x.emitSafe = true
	x.oblige(st, kind, name, goal, detail)
	x.emitSafe = es
	x.props = saved
}

// execAll runs the body from the entry block, following forks created inside instructions.
func (x *Exec) execAll(st *State) {
	x.execFrom(st, x.fn.Blocks[0], nil)
}

func (x *Exec) numberCalls() {
	x.callNo = map[ssa.Instruction]int{}
	count := map[string]int{}
	type ci struct {
		in  ssa.Instruction
		pos int
		nm  string
	}
	var calls []ci
	for _, b := range x.fn.Blocks {
		for _, in := range b.Instrs {
			if c, ok := in.(ssa.CallInstruction); ok {
				nm := ""
				if f := c.Common().StaticCallee(); f != nil {
					o := f
					if f.Origin() != nil {
						o = f.Origin()
					}
					nm = o.Name()
				} else if c.Common().IsInvoke() {
					nm = c.Common().Method.Name()
				} else {
					nm = "funcvalue"
				}
				calls = append(calls, ci{in, int(in.Pos()), nm})
			}
		}
	}
	sort.SliceStable(calls, func(i, j int) bool { return calls[i].pos < calls[j].pos })
	for _, c := range calls {
		count[c.nm]++
		x.callNo[c.in] = count[c.nm]
	}
}

// ---------------------------------------------------------------- using a callee's contract at a call site

func (x *Exec) calleeExec(fc *FuncContract, origin *ssa.Function, targs []types.Type) *Exec {
	sigma := Subst{}
	if origin.TypeParams() != nil {
		for i := 0; i < origin.TypeParams().Len() && i < len(targs); i++ {
			sigma[origin.TypeParams().At(i)] = targs[i]
		}
	}
	cx := &Exec{V: x.V, fn: origin, fc: fc, sigma: sigma, inst: x.inst, run: x.run, names: map[string]Value{}, ghosts: map[string]*Term{}, holes: map[string]string{}, isCallee: true}
	for _, h := range fc.Holes {
		cx.holes[h.Name] = h.Pinned
	}
	if r, ok := x.V.holeRes[fc.Pkg+"."+fc.Name]; ok {
		for k, v := range r {
			cx.holes[k] = v
		}
	}
	return cx
}

func calleeLabel(fc *FuncContract, in ssa.Instruction, x *Exec) string {
	n := 0
	if in != nil {
		n = x.callNo[in]
	}
	return fmt.Sprintf("call(%s#%d)", fc.Name, n)
}

func (x *Exec) applyContract(st *State, fc *FuncContract, origin *ssa.Function, targs []types.Type, args []Value, in ssa.Instruction, cc *ssa.CallCommon) Value {
	cx := x.calleeExec(fc, origin, targs)
	for i, p := range origin.Params {
		cx.names[p.Name()] = args[i]
		// factory arguments must be fresh-zero factories of the element type
		if fv, ok := args[i].(VFunc); ok {
			if sig, ok := cx.resolve(p.Type()).Underlying().(*types.Signature); ok && sig.Results().Len() == 1 {
				want := cx.tagOfType(sig.Results().At(0).Type())
				got := x.closureTag(st, fv, in)
				x.oblige(st, "pre", calleeLabel(fc, in, x)+"/factory-arg", Eq(got, want), "the factory argument returns a fresh zero value of the element type")
			}
		}
	}
	cx.bindContractParams(func(i int) Value { return args[i] })
	label := calleeLabel(fc, in, x)
	pre := st.clone()
	cx.old = pre
	ev := cx.evaluator(st)
	for i, r := range fc.Requires {
		t, err := ev.boolTerm(r)
		if err != nil {
			x.oblige(st, "pre", fmt.Sprintf("%s/requires#%d", label, i+1), False, "not evaluable: "+err.Error())
			continue
		}
		if x.emitSafe {
			es := x.emitSafe
			x.oblige(st, "safe", fmt.Sprintf("%s/requires#%d", label, i+1), t, "precondition of "+fc.Name+": "+r.String())
			x.emitSafe = es
		}
		st.assume(t)
	}
	// frame: buffers passed are (possibly) appended to / consumed; results are fresh
	if !fc.Pure {
		for _, a := range args {
			if p, ok := a.(VPtr); ok && p.Obj != nil && p.Obj.Kind == "buffer" {
				c := st.mut(p.Obj)
				c.Seq = FreshSeq(p.Obj.Name + ".u")
				st.assume(App("bytes", SBool, c.Seq))
				c.Epoch++
			}
		}
	}
	sig := origin.Signature
	var res []Value
	for i := 0; i < sig.Results().Len(); i++ {
		rt := cx.resolve(sig.Results().At(i).Type())
		v := x.symValue(st, rt, fmt.Sprintf("%s.r%d", fc.Name, i), "fresh")
		if sl, ok := v.(VSlice); ok {
			sl.Arr.Prov = "fresh"
		}
		res = append(res, v)
	}
	ev = cx.evaluator(st)
	ev.results = res
	for _, e := range fc.Ensures {
		if t, err := ev.boolTerm(e); err == nil {
			st.assume(t)
		}
	}
	matched := map[string]bool{}
	for _, b := range fc.Behaviors {
		binds := map[string]*Term{}
		if len(b.Ghosts) > 0 {
			binds = x.bindGhosts(st, pre, cx, fc, b, res, in)
			matched[b.Name] = true
			for _, t := range binds {
				if t.Op == "var" && strings.HasPrefix(t.Name, "unmatched_") {
					matched[b.Name] = false
				}
			}
		}
		bev := cx.evaluator(st)
		bev.results = res
		for k, v := range binds {
			bev.terms[k] = v
		}
		var as, es []*Term
		ok := true
		for _, a := range b.Assumes {
			t, err := bev.boolTerm(a)
			if err != nil {
				ok = false
				break
			}
			as = append(as, t)
		}
		for _, e := range b.Ensures {
			t, err := bev.boolTerm(e)
			if err != nil {
				ok = false
				break
			}
			es = append(es, t)
		}
		if ok {
			hyp := And(as...)
			if x.assumeOK != nil && b.Name == "ok" {
				// message-layer "ok" run: the callee's ok-domain becomes part of the extracted domain
				x.assumeOK(st, fc, in, hyp)
			}
			if x.assumeBeh != nil {
				x.assumeBeh(st, fc, b, in, hyp)
			}
			all := true
			var missing []*Term
			for _, p := range conjuncts(hyp) {
				if st.implied(p) != 1 {
					all = false
					missing = append(missing, p)
				}
			}
			if !all && x.rtMode && len(b.Ghosts) > 0 && matched[b.Name] {
				// round-trip chaining: the callee's rt behaviour is the one that applies; its domain is an obligation here
				for i, p := range missing {
					x.oblige(st, "pre", fmt.Sprintf("%s/%s/assumes#%d", label, b.Name, i+1), p, "domain of the reader's "+b.Name+" behaviour at this call")
					st.assume(p)
				}
				all = true
			}
			if all {
				st.assume(And(es...))
			} else {
				st.assume(Implies(hyp, And(es...)))
			}
		}
	}
	x.normalizeBuffers(st)
	for i, r := range res {
		best := func(v *Term) *Term {
			var b *Term
			for _, p := range st.pc {
				if p.Op == "=" && Same(p.Args[0], v) && !mentions(p.Args[1], v.Name) {
					if b == nil || len(p.Args[1].Key()) < len(b.Key()) {
						b = p.Args[1]
					}
				}
			}
			return b
		}
		if iv, ok := r.(VInt); ok && iv.T.Op == "var" {
			if b := best(iv.T); b != nil {
				res[i] = VInt{b}
			}
		}
		if sv, ok := r.(VStr); ok && sv.T.Op == "var" {
			if b := best(sv.T); b != nil {
				res[i] = VStr{b}
			}
		}
		if sl, ok := r.(VSlice); ok {
			if c := st.get(sl.Arr).Seq; c != nil && c.Op == "var" {
				for _, p := range st.pc {
					if p.Op == "=" && Same(p.Args[0], c) && !mentions(p.Args[1], c.Name) {
						st.mut(sl.Arr).Seq = p.Args[1]
						nl := Len(p.Args[1])
						res[i] = VSlice{Arr: sl.Arr, Lo: IntC(0), Hi: nl, Cap: nl, IsNil: sl.IsNil, Elem: sl.Elem}
						break
					}
				}
			}
		}
	}
	if len(fc.Alloc) > 0 {
		na := FreshInt("alloc")
		st.assume(Le(st.alloc, na))
		var errNil *Term
		for _, r := range res {
			if e, ok := r.(VErr); ok {
				errNil = e.Nil
			}
		}
		aev := cx.evaluator(st)
		aev.results = res
		if e := fc.Alloc["success"]; e != nil {
			if t, err := aev.intTerm(e); err == nil {
				h := True
				if errNil != nil {
					h = errNil
				}
				st.assume(Implies(h, Le(na, Add(st.alloc, t))))
				// measure: constant part and largest per-byte coefficient of the bound
				l := newLin()
				l.add(t, big.NewInt(1))
				if l.c.IsInt64() {
					st.allocC += l.c.Int64()
				} else {
					st.allocUnknown = true
				}
				for k, cf := range l.coef {
					if cf.Sign() > 0 {
						if a := l.atoms[k]; a.Op == "app" && a.Name == "len" && cf.IsInt64() {
							if cf.Int64() > st.allocA {
								st.allocA = cf.Int64()
							}
						} else {
							st.allocUnknown = true
						}
					}
				}
			}
		}
		if e := fc.Alloc["failure"]; e != nil && errNil != nil {
			if t, err := aev.intTerm(e); err == nil {
				st.assume(Implies(Not(errNil), Le(na, Add(st.alloc, t))))
			}
		}
		st.alloc = na
	} else if !fc.Pure {
		x.V.assumptionsUsed["callee "+fc.Name+" has no alloc clause (allocation unaccounted)"] = true
	}
	x.recordCall(st, fc, cx, origin, args, res, in, pre)
	return x.resultOf(cc, res...)
}

// normalizeBuffers makes an unconditional assumption  buf.u == <structured term>  the buffer's content.
func (x *Exec) normalizeBuffers(st *State) {
	pieces := func(t *Term) int {
		n := 0
		fv := map[string]*Term{}
		FreeVars(t, fv)
		for k := range fv {
			if strings.HasPrefix(k, "piece!") {
				n++
			}
		}
		return n
	}
	for o, c := range st.heap {
		if o.Kind != "buffer" || c.Seq == nil {
			continue
		}
		v := c.Seq
		bestPieces := 1 << 30
		if v.Op != "var" {
			// an earlier description that still contains an unknown piece may be improved once a later fact
			// (e.g. the callee's behaviour becoming known) gives the full structure
			if c.SeqVar == nil || c.SeqOf != c.Seq || pieces(c.Seq) == 0 {
				continue
			}
			v = c.SeqVar
			bestPieces = pieces(c.Seq)
		}
		var best *Term
		for _, p := range st.pc {
			if p.Op != "=" || p.Args[0].Sort != SSeq {
				continue
			}
			var cand *Term
			if Same(p.Args[0], v) && !mentions(p.Args[1], v.Name) {
				cand = p.Args[1]
			} else if Same(p.Args[1], v) && !mentions(p.Args[0], v.Name) {
				cand = p.Args[0]
			}
			if cand == nil {
				continue
			}
			// prefer the fully structured description over one that contains an unknown piece
			if n := pieces(cand); n < bestPieces {
				best, bestPieces = cand, n
			}
		}
		if best != nil {
			m := st.mut(o)
			m.Seq, m.SeqVar, m.SeqOf = best, v, best
		}
	}
}

// expandSeq rewrites sequence variables by their defining equations in the path condition
// (u_k == E_k ++ u_k+1), so that chains of callee post-conditions become one structured term.
func expandSeq(st *State, t *Term) *Term {
	defs := map[string]*Term{}
	pieces := func(c *Term) int {
		n := 0
		fv := map[string]*Term{}
		FreeVars(c, fv)
		for k := range fv {
			if strings.HasPrefix(k, "piece!") {
				n++
			}
		}
		return n
	}
	contains := func(hay, needle *Term) bool { return strings.Contains(hay.Key(), needle.Key()) }
	for _, p := range st.pc {
		if p.Op != "=" || p.Args[0].Sort != SSeq {
			continue
		}
		for _, side := range []int{0, 1} {
			v, rhs := p.Args[side], p.Args[1-side]
			isDrop := v.Op == "app" && v.Name == "drop"
			if !(v.Op == "var" || isDrop) || contains(rhs, v) || strings.HasPrefix(v.Name, "piece!") {
				continue
			}
			if isDrop && (rhs.Op == "var" || len(Segs(rhs)) < 2) {
				continue // an alias, not a decomposition
			}
			if old, ok := defs[v.Key()]; !ok || pieces(rhs) < pieces(old) {
				defs[v.Key()] = rhs
			}
		}
	}
	// take(v,n) == X  together with  w == drop(v,n)  defines  v == X ++ w   (v any term)
	for _, p := range st.pc {
		if p.Op != "=" || p.Args[0].Sort != SSeq {
			continue
		}
		for _, side := range []int{0, 1} {
			tk, x := p.Args[side], p.Args[1-side]
			if !(tk.Op == "app" && tk.Name == "take") {
				continue
			}
			v := tk.Args[0]
			dr := Drop(v, tk.Args[1])
			if contains(x, v) {
				continue
			}
			if old, ok := defs[v.Key()]; !ok || pieces(old) > 0 {
				defs[v.Key()] = Cat(x, dr)
			}
		}
	}
	var rec func(t *Term, depth int) *Term
	rec = func(t *Term, depth int) *Term {
		if depth > 300 {
			return t
		}
		var out []*Term
		for _, s := range Segs(t) {
			if d, ok := defs[s.Key()]; ok {
				delete(defs, s.Key()) // each definition is used once along a chain
				out = append(out, Segs(rec(d, depth+1))...)
				continue
			}
			out = append(out, s)
		}
		return Cat(out...)
	}
	return rec(t, 0)
}

func mentions(t *Term, name string) bool {
	fv := map[string]*Term{}
	FreeVars(t, fv)
	_, ok := fv[name]
	return ok
}

// bindGhosts chooses the logical parameters of a callee behaviour: explicitly (call clause of the
// caller's contract) or by matching the callee's pattern against the caller's current buffer.
func (x *Exec) bindGhosts(st, pre *State, cx *Exec, fc *FuncContract, b *Behavior, res []Value, in ssa.Instruction) map[string]*Term {
	binds := map[string]*Term{}
	if x.fc != nil && in != nil {
		for _, cg := range x.fc.CallGhost {
			if cg.Callee == fc.Name && cg.Ordinal == x.callNo[in] && (cg.Behavior == "" || cg.Behavior == b.Name) {
				if cg.Behavior == "" && x.run != b.Name && b.Name != "rt" {
					// unlabelled bindings are meant for the behaviour of the same name as the current run
				}
				ev := x.evaluator(pre)
				ev.extra = pre.lenv
				ev.entry = nil
				ok := true
				for k, e := range cg.Binds {
					t, err := ev.term(e)
					if err != nil {
						ok = false
						break
					}
					binds[k] = t
				}
				if ok && len(binds) == len(b.Ghosts) {
					return binds
				}
				binds = map[string]*Term{}
			}
		}
	}
	// pattern variables
	pat := map[string]*Term{}
	isPat := map[string]bool{}
	for _, g := range b.Ghosts {
		pat[g.Name] = Var("?"+g.Name, g.Sort)
		isPat["?"+g.Name] = true
	}
	ev := cx.evaluator(st)
	ev.results = res
	for k, v := range pat {
		ev.terms[k] = v
	}
	for _, a := range b.Assumes {
		t, err := ev.boolTerm(a)
		if err != nil {
			continue
		}
		for _, cj := range conjuncts(t) {
			if cj.Op != "=" || cj.Args[0].Sort != SSeq {
				continue
			}
			l, r := cj.Args[0], cj.Args[1]
			if hasPatVar(l, isPat) {
				l, r = r, l
			}
			if hasPatVar(l, isPat) || !hasPatVar(r, isPat) {
				continue
			}
			m := map[string]*Term{}
			if matchSeq(r, l, isPat, m) {
				for k, v := range m {
					binds[strings.TrimPrefix(k, "?")] = v
				}
			}
		}
	}
	for _, g := range b.Ghosts {
		if _, ok := binds[g.Name]; !ok {
			// no instantiation found: an arbitrary constant is still a sound instance
			binds[g.Name] = Var(freshName("unmatched_"+g.Name), g.Sort)
		}
	}
	return binds
}

func hasPatVar(t *Term, isPat map[string]bool) bool {
	fv := map[string]*Term{}
	FreeVars(t, fv)
	for k := range fv {
		if isPat[k] {
			return true
		}
	}
	return false
}

// matchSeq matches a sequence pattern (concatenation whose last segment may be a pattern variable)
// against an actual sequence term.
func matchSeq(pat, act *Term, isPat map[string]bool, m map[string]*Term) bool {
	ps, as := Segs(pat), Segs(act)
	for i, p := range ps {
		if p.Op == "var" && isPat[p.Name] && i == len(ps)-1 {
			rest := Cat(as[min(i, len(as)):]...)
			if old, ok := m[p.Name]; ok {
				return Same(old, rest)
			}
			m[p.Name] = rest
			return true
		}
		if i >= len(as) {
			return false
		}
		if !matchTerm(p, as[i], isPat, m) {
			return false
		}
	}
	return len(ps) == len(as)
}

func matchTerm(pat, act *Term, isPat map[string]bool, m map[string]*Term) bool {
	if pat.Op == "var" && isPat[pat.Name] {
		if pat.Sort != act.Sort {
			return false
		}
		if old, ok := m[pat.Name]; ok {
			return Same(old, act)
		}
		m[pat.Name] = act
		return true
	}
	if !hasPatVar(pat, isPat) {
		return Same(pat, act)
	}
	if pat.Op == "app" && pat.Name == "cat" {
		return matchSeq(pat, act, isPat, m)
	}
	if pat.Op != act.Op || pat.Name != act.Name || len(pat.Args) != len(act.Args) {
		return false
	}
	for i := range pat.Args {
		if !matchTerm(pat.Args[i], act.Args[i], isPat, m) {
			return false
		}
	}
	return true
}
