package main

// hlayout.go: turns the pinned layouts of a package into data for the replay harness, which interprets them
// at run time against the real Encode (an interpreter of the pinned schema that shares no code with the
// symbolic engine: a second opinion on C02 / C03 / C13 and a source of concrete failing inputs).

import (
	"fmt"
	"sort"
	"strings"
)

type hSeg struct {
	K    string // int len const bytes fixed part zero tblzero listpart listint listfixed listpstr bodylen crc32 bsum unknown
	F    string // field
	W    int
	LE   bool
	N    int
	Pad  int
	Left bool
	T    string // static type name / key field for tblzero
	C    string // constant (decimal)
	Src  string
}

func (s hSeg) goLit() string {
	return fmt.Sprintf("{K: %q, F: %q, W: %d, LE: %v, N: %d, Pad: %d, Left: %v, T: %q, C: %q, Src: %q}", s.K, s.F, s.W, s.LE, s.N, s.Pad, s.Left, s.T, s.C, s.Src)
}

func exprNum(e *Expr) (int, bool) {
	if e != nil && e.Kind == "num" && e.Num.IsInt64() {
		return int(e.Num.Int64()), true
	}
	return 0, false
}

func exprIdent(e *Expr) (string, bool) {
	if e != nil && e.Kind == "ident" {
		return e.Name, true
	}
	return "", false
}

func isCall(e *Expr, name string, n int) bool {
	return e != nil && e.Kind == "call" && e.Name == name && len(e.Args) == n
}

// stripMod removes "% pow2(n)" wrappers.
func stripMod(e *Expr) *Expr {
	for e != nil && e.Kind == "bin" && e.Name == "%" && isCall(e.Args[1], "pow2", 1) {
		e = e.Args[0]
	}
	return e
}

func mentionsCall(e *Expr, name string) bool {
	if e == nil {
		return false
	}
	if e.Kind == "call" && e.Name == name {
		return true
	}
	for _, a := range e.Args {
		if mentionsCall(a, name) {
			return true
		}
	}
	return false
}

// wdPart classifies Wd(tagexpr, mvexpr).
func wdPart(e *Expr) (hSeg, bool) {
	if !isCall(e, "Wd", 2) {
		return hSeg{}, false
	}
	tg, mv := e.Args[0], e.Args[1]
	// Wd(F.tag, F.mv)
	if tg.Kind == "field" && tg.Name == "tag" && mv.Kind == "field" && mv.Name == "mv" {
		if f, ok := exprIdent(tg.Args[0]); ok {
			return hSeg{K: "part", F: f}, true
		}
	}
	// Wd(tag(T), F.mv)
	if isCall(tg, "tag", 1) && mv.Kind == "field" && mv.Name == "mv" {
		t, _ := exprIdent(tg.Args[0])
		if f, ok := exprIdent(mv.Args[0]); ok {
			return hSeg{K: "part", F: f, T: t}, true
		}
	}
	// Wd(tag(T), zeromv(tag(T)))
	if isCall(tg, "tag", 1) && isCall(mv, "zeromv", 1) {
		t, _ := exprIdent(tg.Args[0])
		return hSeg{K: "zero", T: t}, true
	}
	// Wd(tbl(table, K), zeromv(tbl(table, K)))
	if isCall(tg, "tbl", 2) && isCall(mv, "zeromv", 1) {
		tb, _ := exprIdent(tg.Args[0])
		k, _ := exprIdent(tg.Args[1])
		return hSeg{K: "tblzero", T: tb, F: k}, true
	}
	return hSeg{}, false
}

func segOf(e *Expr) hSeg {
	src := e.String()
	un := hSeg{K: "unknown", Src: src}
	if f, ok := exprIdent(e); ok {
		return hSeg{K: "bytes", F: f, Src: src}
	}
	if s, ok := wdPart(e); ok {
		s.Src = src
		return s
	}
	order := func(o *Expr) (bool, bool) {
		n, ok := exprIdent(o)
		return n == "LE", ok && (n == "LE" || n == "BE")
	}
	side := func(o *Expr) (bool, bool) {
		n, ok := exprIdent(o)
		return n == "L", ok && (n == "L" || n == "R")
	}
	switch {
	case isCall(e, "fixed", 4):
		f, ok1 := exprIdent(e.Args[0])
		n, ok2 := exprNum(e.Args[1])
		p, ok3 := exprNum(e.Args[2])
		l, ok4 := side(e.Args[3])
		if ok1 && ok2 && ok3 && ok4 {
			return hSeg{K: "fixed", F: f, N: n, Pad: p, Left: l, Src: src}
		}
	case isCall(e, "encw", 3):
		le, ok1 := order(e.Args[0])
		w, ok2 := exprNum(e.Args[1])
		if !ok1 || !ok2 {
			return un
		}
		v := e.Args[2]
		if mentionsCall(v, "crc32_ieee") {
			return hSeg{K: "crc32", W: w, LE: le, Src: src}
		}
		if mentionsCall(v, "bsum") {
			return hSeg{K: "bsum", W: w, LE: le, Src: src}
		}
		v = stripMod(v)
		if n, ok := exprNum(v); ok {
			return hSeg{K: "const", W: w, LE: le, C: fmt.Sprint(n), Src: src}
		}
		if f, ok := exprIdent(v); ok {
			return hSeg{K: "int", F: f, W: w, LE: le, Src: src}
		}
		if isCall(v, "len", 1) {
			if f, ok := exprIdent(v.Args[0]); ok {
				return hSeg{K: "len", F: f, W: w, LE: le, Src: src}
			}
			if p, ok := wdPart(v.Args[0]); ok && p.K == "part" {
				return hSeg{K: "bodylen", F: p.F, W: w, LE: le, Src: src}
			}
		}
	case isCall(e, "flat", 4):
		kind, fld := e.Args[0], e.Args[1]
		f, ok := exprIdent(fld)
		lo, ok2 := exprNum(e.Args[2])
		if !ok || !ok2 || lo != 0 || !isCall(e.Args[3], "len", 1) {
			return un
		}
		switch {
		case isCall(kind, "k_obj", 1):
			t := ""
			if isCall(kind.Args[0], "tag", 1) {
				t, _ = exprIdent(kind.Args[0].Args[0])
			}
			return hSeg{K: "listpart", F: f, T: t, Src: src}
		case isCall(kind, "k_enc", 2) || isCall(kind, "k_encs", 2):
			le, ok1 := order(kind.Args[0])
			w, ok2 := exprNum(kind.Args[1])
			if ok1 && ok2 {
				return hSeg{K: "listint", F: f, W: w, LE: le, Src: src}
			}
		case isCall(kind, "k_fix", 3):
			n, ok1 := exprNum(kind.Args[0])
			p, ok2 := exprNum(kind.Args[1])
			l, ok3 := side(kind.Args[2])
			if ok1 && ok2 && ok3 {
				return hSeg{K: "listfixed", F: f, N: n, Pad: p, Left: l, Src: src}
			}
		case isCall(kind, "k_pstr", 2):
			le, ok1 := order(kind.Args[0])
			w, ok2 := exprNum(kind.Args[1])
			if ok1 && ok2 {
				return hSeg{K: "listpstr", F: f, W: w, LE: le, Src: src}
			}
		}
	}
	return un
}

// harnessLayouts renders the pinned layouts of a package as Go source for the harness.
func (V *Verifier) harnessLayouts(pkgPath string) string {
	cf := V.files[pkgPath]
	if cf == nil {
		return ""
	}
	var names []string
	for n := range cf.Layouts {
		names = append(names, n)
	}
	sort.Strings(names)
	var b strings.Builder
	for _, n := range names {
		ly := cf.Layouts[n]
		fmt.Fprintf(&b, "\t%q: {\n", n)
		for _, p := range ly.Paths {
			var conds []string
			if p.Key != "always" {
				for _, c := range strings.Split(p.Key, "&&") {
					f := strings.Fields(c)
					if len(f) == 3 && f[2] == "nil" {
						conds = append(conds, fmt.Sprintf("{%q, %v}", f[0], f[1] == "=="))
					}
				}
			}
			fmt.Fprintf(&b, "\t\t{Cond: []verifCond{%s}, Segs: []verifSeg{\n", strings.Join(conds, ", "))
			for _, s := range p.Segs {
				fmt.Fprintf(&b, "\t\t\t%s,\n", segOf(s).goLit())
			}
			b.WriteString("\t\t}},\n")
		}
		b.WriteString("\t},\n")
	}
	return b.String()
}
