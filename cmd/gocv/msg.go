package main

// Message layer: the schema contract every Encode / Decode method is used under (and verified
// against, per type), interface dispatch, discriminator tables, checksum services.

import (
	"fmt"
	"go/types"
	"sort"
	"strings"

	"golang.org/x/tools/go/ssa"
)

type CallRecord struct {
	Callee  string
	FC      *FuncContract
	Names   map[string]Value
	Results []Value
	PreU    *Term
	PostU   *Term
	In      ssa.Instruction
	Ordinal int
	Kind    string // codec | schema-encode | schema-decode | table | service
	Tag     *Term
	MV      *Term
	MVPost  *Term
	Sigma   Subst
	TArgs   []types.Type
	Obj     *Obj
	Table   string
}

func (x *Exec) recordCall(st *State, fc *FuncContract, cx *Exec, origin *ssa.Function, args []Value, res []Value, in ssa.Instruction, pre *State) {
	if x.onCall == nil {
		return
	}
	rec := &CallRecord{Callee: fc.Name, FC: fc, Names: cx.names, Results: res, In: in, Kind: "codec", Sigma: cx.sigma}
	if in != nil {
		rec.Ordinal = x.callNo[in]
	}
	for _, a := range args {
		if p, ok := a.(VPtr); ok && p.Obj != nil && p.Obj.Kind == "buffer" {
			rec.PreU = pre.get(p.Obj).Seq
			rec.PostU = st.get(p.Obj).Seq
		}
	}
	x.onCall(st, rec)
}

func dynOf(v Value) (*Obj, *Term) {
	switch r := v.(type) {
	case VPtr:
		if r.Obj != nil && r.Obj.Kind == "dyn" {
			return r.Obj, r.IsNil
		}
	case VIface:
		if r.Obj != nil {
			return r.Obj, r.IsNil
		}
	}
	return nil, nil
}

// invoke: interface method calls.
func (x *Exec) invoke(st *State, recv Value, m *types.Func, args []Value, in ssa.Instruction, cc *ssa.CallCommon) Value {
	switch m.Name() {
	case "Encode", "Decode":
		if o, _ := dynOf(recv); o != nil && len(args) == 1 {
			return x.schemaCall(st, m.Name(), recv, args[0], in, cc)
		}
	case "Algorithm":
		if b, ok := recv.(VBox); ok {
			switch iv := b.Inner.(type) {
			case VService:
				return VStr{iv.Alg}
			case VOpaque:
				x.V.assumptionsUsed["Algorithm() of a registered service is pure and stable"] = true
				s := App("svc_alg", SSeq, iv.T)
				st.assume(App("bytes", SBool, s))
				return VStr{s}
			case VPtr:
				if iv.Obj != nil {
					// the concrete service's Algorithm() contract (ensures \result == "NAME")
					if n := namedOf(iv.Obj.Type); n != nil {
						for name, t := range x.V.serviceTypes() {
							if t == n {
								return VStr{strConst(name)}
							}
						}
					}
					return VStr{x.V.algorithmOf(iv.Obj.Type)}
				}
			}
		}
	case "Calc":
		if b, ok := recv.(VBox); ok {
			if sv, ok := b.Inner.(VService); ok {
				x.nonNilCall(st, b.IsNil, "service", in)
				if name, isConst := termString(sv.Alg); isConst {
					if n, ok := x.V.serviceTypes()[name]; ok {
						pkgPath := modPath + "/codec"
						short := "(*" + n.Obj().Name() + ").Calc"
						if fc := x.V.contractFor(pkgPath, short); fc != nil {
							fn := x.V.lookupFunc(pkgPath, short)
							recvObj := newObj("struct", n, "service", "global:service")
							st.heap[recvObj] = &Content{Fields: map[int]Value{}}
							r := x.applyContract(st, fc, fn, nil, []Value{VPtr{Obj: recvObj, IsNil: False}, args[0]}, in, cc)
							return r
						}
					}
				}
				buf := x.bufOf(st, args[0], in, "checksum input")
				u := st.get(buf).Seq
				r := App("ck", SInt, sv.Alg, u)
				rt := cc.Signature().Results().At(0).Type()
				if ti, ok := x.tinfo(rt); ok {
					st.assume(inRange(ti, r))
				}
				if x.onCall != nil {
					x.onCall(st, &CallRecord{Callee: "Calc", Kind: "service", In: in, PreU: u, PostU: u, Tag: nil, Results: []Value{VInt{r}}})
				}
				return VInt{r}
			}
		}
	}
	x.oblige(st, "frame", fmt.Sprintf("uncontracted-invoke(%s)@b%d", m.Name(), blockIdx(in)), False, "interface method without a contract")
	st.dead = true
	return VOpaque{Why: "uncontracted invoke"}
}

func (x *Exec) serviceImplements(sv VService, at types.Type) *Term {
	if name, ok := termString(sv.Alg); ok {
		if n, ok := x.V.serviceTypes()[name]; ok {
			if it, ok := at.Underlying().(*types.Interface); ok {
				return BoolC(types.Implements(types.NewPointer(n), it))
			}
		}
	}
	// a registered service implements ChecksumService[*bytes.Buffer, R] for the R of its Calc
	return App("svc_implements", SBool, sv.Alg, App("ifacetype_"+sanitize(types.TypeString(at, func(p *types.Package) string { return p.Name() })), SInt))
}

func sanitize(s string) string {
	return strings.Map(func(r rune) rune {
		if r >= 'a' && r <= 'z' || r >= 'A' && r <= 'Z' || r >= '0' && r <= '9' || r == '_' {
			return r
		}
		return '_'
	}, s)
}

// schemaCall applies the message-layer schema contract of DESIGN.md §6.1 at a call site.
//
//	Encode: requires p != nil, buf != nil;   assigns buf.u, p.mv
//	        ensures  buf.u extends old(buf.u)                                   (append-only, also on error)
//	        ensures  err == nil ==> buf.u == old(buf.u) ++ Wd(tag, old(mv)) && Wd(tag, mv) == Wd(tag, old(mv)) && canond(tag,mv) == canond(tag,old(mv))
//	        ensures  encok(tag, old(mv)) ==> err == nil
//	Decode: requires p != nil, buf != nil;   assigns buf.u, p.mv
//	        ensures  buf.u is a suffix of old(buf.u)
//	        behavior re: err == nil ==> old(buf.u) == Wd(tag, mv) ++ buf.u && canond(tag, mv) && encok(tag, mv)
//	        behavior rt (ghost v, r): canond(tag,v) && old(buf.u) == Wd(tag,v) ++ r ==> err == nil && buf.u == r && mv == v
func (x *Exec) schemaCall(st *State, method string, recv Value, bufv Value, in ssa.Instruction, cc *ssa.CallCommon) Value {
	o, isnil := dynOf(recv)
	if o == nil {
		panic("unsupported:" + method + " on a receiver that is not a message part")
	}
	n := 0
	if in != nil {
		n = x.callNo[in]
	}
	label := fmt.Sprintf("call(%s#%d)", method, n)
	if isnil != nil && !isnil.IsFalse() {
		x.oblige(st, "safe", label+"/receiver-non-nil", Not(isnil), "receiver of "+method+" is not nil")
		st.assume(Not(isnil))
	}
	buf := x.bufOf(st, bufv, in, "buf")
	c := st.get(o)
	tag, mv0 := c.Tag, c.MV
	u0 := st.get(buf).Seq
	u1 := FreshSeq(buf.Name + ".u")
	st.assume(App("bytes", SBool, u1))
	mv1 := FreshInt(o.Name + ".mv")
	bc := st.mut(buf)
	bc.Seq = u1
	bc.Epoch++
	st.mut(o).MV = mv1
	hasErr := cc.Signature().Results().Len() == 1
	errNil := True
	if hasErr {
		errNil = FreshBool(method + ".err.isnil")
	}
	W := func(v *Term) *Term { return App("Wd", SSeq, tag, v) }
	canon := func(v *Term) *Term { return App("canond", SBool, tag, v) }
	encok := func(v *Term) *Term { return App("encok", SBool, tag, v) }
	st.assume(App("bytes", SBool, W(mv0)))
	rec := &CallRecord{Callee: method, In: in, Ordinal: n, PreU: u0, Tag: tag, MV: mv0, MVPost: mv1}
	if method == "Encode" {
		rec.Kind = "schema-encode"
		st.assume(App("extends", SBool, u1, u0))
		okc := encok(mv0)
		if x.assumeOK != nil {
			x.assumeOK(st, nil, in, okc)
		}
		post := And(Eq(W(mv1), W(mv0)), Eq(canon(mv1), canon(mv0)), Eq(encok(mv1), encok(mv0)))
		if st.implied(okc) == 1 {
			st.assume(errNil)
			st.assume(post)
			st.mut(buf).Seq = Cat(u0, W(mv0))
		} else {
			st.assume(Implies(okc, errNil))
			st.assume(Implies(errNil, And(okc, Eq(u1, Cat(u0, W(mv0))), post)))
		}
		st.alloc = Add(st.alloc, IntC(0))
	} else {
		rec.Kind = "schema-decode"
		st.assume(App("suffixof", SBool, u1, u0))
		// re
		st.assume(Implies(errNil, And(Eq(u0, Cat(W(mv1), u1)), canon(mv1), encok(mv1))))
		st.assume(Implies(errNil, Le(Add(Len(u1), x.V.minWidthTerm(tag)), Len(u0))))
		if st.written == nil {
			st.written = map[string]bool{}
		}
		st.written[fmt.Sprintf("obj%d", o.ID)] = true
		// rt: ghosts (v, r) given explicitly by the caller's contract, or matched against the head of the buffer
		var gv, gr *Term
		if x.fc != nil && in != nil {
			for _, cg := range x.fc.CallGhost {
				if cg.Callee == "Decode" && cg.Ordinal == n && (cg.Behavior == "" || cg.Behavior == x.run) {
					ev := x.evaluator(st)
					ev.extra = st.lenv
					if e, ok := cg.Binds["v"]; ok {
						gv, _ = ev.term(e)
					}
					if e, ok := cg.Binds["r"]; ok {
						gr, _ = ev.term(e)
					}
				}
			}
		}
		segs := Segs(u0)
		structural := false
		if gv == nil && len(segs) > 0 && segs[0].Op == "app" && segs[0].Name == "Wd" {
			ht := segs[0].Args[0]
			if !Same(ht, tag) && x.rtMode {
				// the part on the wire must be of the type this decoder expects ("body/extension type matching its
				// discriminator" is a hypothesis of the round trip, pinned by the dyn clauses of the layout)
				if st.implied(Eq(ht, tag)) != 1 {
					x.oblige(st, "pre", label+"/rt/part-type-matches", Eq(ht, tag), "the decoder builds the type of the part that was encoded")
					st.assume(Eq(ht, tag))
				}
				ht = tag
			}
			if Same(ht, tag) {
				gv = segs[0].Args[1]
				gr = Cat(segs[1:]...)
				structural = true
			}
		}
		if gv != nil && gr != nil {
			hyp := And(canon(gv), Eq(u0, Cat(W(gv), gr)))
			if structural {
				hyp = canon(gv)
			}
			if structural && x.rtMode {
				if st.implied(canon(gv)) != 1 {
					x.oblige(st, "pre", label+"/rt/canon", canon(gv), "the part being decoded is in the round-trip domain")
					st.assume(canon(gv))
				}
				st.assume(And(errNil, Eq(u1, gr), Eq(mv1, gv)))
				st.mut(buf).Seq = gr
				st.mut(o).MV = gv
				mv1 = gv
				rec.MVPost = gv
			} else {
				st.assume(Implies(hyp, And(errNil, Eq(u1, gr), Eq(mv1, gv))))
			}
		}
		// allocation: the nested decoder's own bound (its constants are proved for its type by DecodeSafe)
		pa, pb := x.V.allocConstsOfTag(tag)
		na := FreshInt("alloc")
		consumed := Sub(Len(u0), Len(st.get(buf).Seq))
		st.assume(And(Le(st.alloc, na), Implies(errNil, Le(na, Add(st.alloc, IntC(pb), Mul(IntC(pa), consumed)))), Implies(Not(errNil), Le(na, Add(st.alloc, IntC(pb), Mul(IntC(pa), Len(u0)))))))
		st.alloc = na
		st.allocC += pb
		if pa > st.allocA {
			st.allocA = pa
		}
	}
	rec.PostU = st.get(buf).Seq
	if x.onCall != nil {
		x.onCall(st, rec)
	}
	if hasErr {
		return VErr{errNil}
	}
	return VTuple{}
}

const maxAllocA = 16384  // a decoder's per-byte allocation factor must stay below this to count as "a small multiple"
const maxAllocB = 262144 // and its constant below this

// ---------------------------------------------------------------- discriminator tables

type ExtractedTable struct {
	Name    string
	Entries []ExtractedEntry
	Bad     []string
}

type ExtractedEntry struct {
	Key *Term // boxed key constant (Int for numeric keys, Seq for text keys)
	Tag *Term
	Pos int
}

func (V *Verifier) bindTables() {
	for path, p := range V.pkgs {
		if !V.inRepo(path) {
			continue
		}
		for _, m := range p.Members {
			g, ok := m.(*ssa.Global)
			if !ok {
				continue
			}
			mt, ok := g.Type().(*types.Pointer).Elem().Underlying().(*types.Map)
			if !ok {
				continue
			}
			if _, ok := mt.Elem().Underlying().(*types.Signature); !ok {
				continue
			}
			ti := V.tables[path+"."+g.Name()]
			if ti == nil {
				ti = &TableInfo{Pkg: path}
				V.tables[path+"."+g.Name()] = ti
			}
			ti.Var = g.Name()
			// functions of the package that read / write this map
			for _, fm := range p.Members {
				fn, ok := fm.(*ssa.Function)
				if !ok || fn.Blocks == nil || strings.HasPrefix(fn.Name(), "init") {
					continue
				}
				reads, writes := false, false
				for _, b := range fn.Blocks {
					for _, in := range b.Instrs {
						if u, ok := in.(*ssa.UnOp); ok && u.X == g {
							for _, r := range *u.Referrers() {
								switch r.(type) {
								case *ssa.Lookup:
									reads = true
								case *ssa.MapUpdate:
									writes = true
								}
							}
						}
					}
				}
				if writes {
					ti.Registry = fn.Name()
					V.tableFuncs[path+"."+fn.Name()] = ti
				} else if reads {
					ti.Factory = fn.Name()
					V.tableFuncs[path+"."+fn.Name()] = ti
				}
			}
		}
	}
}

func keyTerm(keyType, lit string) *Term {
	if strings.HasPrefix(lit, "\"") {
		return strConst(strings.Trim(lit, "\""))
	}
	var v int64
	fmt.Sscanf(lit, "%d", &v)
	return IntC(v)
}

// tableTerms returns, for a symbolic key, the membership condition and the tag selected,
// according to the pinned table of the contract or the table extracted from init().
func (V *Verifier) tableTerms(ti *TableInfo, key *Term) (*Term, *Term, bool) {
	var keys, tags []*Term
	if V.tableMode == "extracted" {
		et := V.extracted[ti.Pkg+"."+ti.Var]
		if et == nil {
			return nil, nil, false
		}
		for _, e := range et.Entries {
			keys = append(keys, e.Key)
			tags = append(tags, e.Tag)
		}
	} else {
		if ti.T == nil {
			return nil, nil, false
		}
		pkgName := V.pkgs[ti.Pkg].Pkg.Name()
		for _, e := range ti.T.Entries {
			keys = append(keys, keyTerm(ti.T.KeyType, e[0]))
			tags = append(tags, App("tag_"+pkgName+"."+e[1], SInt))
		}
	}
	dom := False
	tag := App("tag_none", SInt)
	// later registrations of the same key overwrite earlier ones: scan from the last
	for i := len(keys) - 1; i >= 0; i-- {
		k := keys[i]
		if k.Sort != key.Sort {
			return nil, nil, false
		}
		dom = Or(dom, Eq(key, k))
	}
	for i := 0; i < len(keys); i++ {
		tag = Ite(Eq(key, keys[i]), tags[i], tag)
	}
	return dom, tag, true
}

func keyValueTerm(v Value) *Term {
	switch k := v.(type) {
	case VInt:
		return k.T
	case VStr:
		return k.T
	}
	return nil
}

// tableCall: the contract generated from a table block for New...MessageBy...(key) and Registry...Factory(key, f).
func (x *Exec) tableCall(st *State, ti *TableInfo, short string, args []Value, in ssa.Instruction, cc *ssa.CallCommon) Value {
	if short == ti.Registry {
		// effect: table[key] = factory
		g := x.V.pkgs[ti.Pkg].Members[ti.Var].(*ssa.Global)
		x.V.noteGlobal(x.inst, ti.Pkg+"."+ti.Var, "write")
		o := x.V.globalObj(st, x, g)
		m := st.get(o).Val.(VMap)
		x.mapWrite(st, m, args[0], args[1], false, in)
		return VTuple{}
	}
	x.V.noteGlobal(x.inst, ti.Pkg+"."+ti.Var, "read")
	key := keyValueTerm(args[0])
	if key == nil {
		panic("unsupported:table key")
	}
	dom, tag, ok := x.V.tableTerms(ti, key)
	if !ok {
		x.oblige(st, "frame", fmt.Sprintf("table-without-contract(%s)@b%d", ti.Var, blockIdx(in)), False, "discriminator table has no table block in the contract")
		st.dead = true
		return VOpaque{Why: "no table"}
	}
	if !dom.IsTrue() && !dom.IsFalse() {
		x.V.tblTerms[dom.Key()] = tblRef{table: ti.Var, key: key, what: "dom"}
	}
	if tag.Op == "ite" {
		x.V.tblTerms[tag.Key()] = tblRef{table: ti.Var, key: key, what: "tag"}
	}
	if x.assumeOK != nil {
		x.assumeOK(st, nil, in, dom)
	}
	o := newObj("dyn", nil, short+"-result", "fresh")
	st.heap[o] = &Content{Tag: tag, MV: zeroMV(tag)}
	st.alloc = Add(st.alloc, IntC(256))
	st.allocC += 256
	errNil := FreshBool(short + ".err.isnil")
	st.assume(Eq(errNil, dom))
	if x.onCall != nil {
		x.onCall(st, &CallRecord{Callee: short, Kind: "table", In: in, Tag: tag, MV: key, Results: []Value{VBool{dom}}, Obj: o, Table: ti.Var})
	}
	return VTuple{VIface{IsNil: Not(dom), Obj: o}, VErr{errNil}}
}

// sortedTableNames lists the tables of a package.
func (V *Verifier) sortedTableNames(pkg string) []string {
	var out []string
	for k, t := range V.tables {
		if t.Pkg == pkg && t.Var != "" {
			out = append(out, k)
		}
	}
	sort.Strings(out)
	return out
}

// ExtractTables symbolically executes the init functions of a package and records what each
// discriminator table holds afterwards: key -> dynamic type of the fresh zero message its factory returns.
func (V *Verifier) ExtractTables(pkgPath string) ([]*Obligation, map[string]*ExtractedTable) {
	p := V.pkgs[pkgPath]
	res := map[string]*ExtractedTable{}
	var obs []*Obligation
	var inits []*ssa.Function
	for name, m := range p.Members {
		if fn, ok := m.(*ssa.Function); ok && strings.HasPrefix(name, "init#") {
			inits = append(inits, fn)
		}
	}
	// Go runs init functions in the order the files are presented to the compiler (sorted by name), then by position
	sort.Slice(inits, func(i, j int) bool {
		pi, pj := V.prog.Fset.Position(inits[i].Pos()), V.prog.Fset.Position(inits[j].Pos())
		if pi.Filename != pj.Filename {
			return pi.Filename < pj.Filename
		}
		return pi.Offset < pj.Offset
	})
	hook := func(x *Exec, st *State, o *Obj, k Value, bv *Term, val Value) {
		name := pkgPath + "." + o.Name
		et := res[name]
		if et == nil {
			et = &ExtractedTable{Name: name}
			res[name] = et
		}
		key := keyValueTerm(k)
		if key == nil || !isGround(key) {
			et.Bad = append(et.Bad, "non-constant key")
			return
		}
		var tag *Term
		if fv, ok := val.(VFunc); ok {
			tag = x.closureTag(st, fv, nil)
		} else {
			tag = App("tag_not_a_factory", SInt)
		}
		// a later registration of the same key replaces the earlier one
		for i, e := range et.Entries {
			if Same(e.Key, key) {
				et.Entries[i].Tag = tag
				return
			}
		}
		et.Entries = append(et.Entries, ExtractedEntry{Key: key, Tag: tag, Pos: len(et.Entries)})
	}
	V.initHooks = append(V.initHooks, hook)
	defer func() { V.initHooks = V.initHooks[:len(V.initHooks)-1] }()
	for _, fn := range inits {
		if len(fn.Blocks) == 0 {
			continue
		}
		x := V.newExec(fn, nil, Subst{}, p.Pkg.Name()+"."+fn.Name(), "init")
		x.emitSafe = true
		x.props = []string{"C12"}
		st := &State{env: map[ssa.Value]Value{}, heap: map[*Obj]*Content{}, alloc: IntC(0), entryOf: map[*ssa.BasicBlock]*State{}, variant: map[*ssa.BasicBlock]*Term{}, callOrd: map[string]int{}}
		x.old = st.clone()
		x.onReturn = func(s *State, r []Value) {}
		x.execAll(st)
		if x.returns != 1 {
			x.fail(st, "subset", "init-not-straight-line", "init functions are expected to be straight-line registrations")
		}
		obs = append(obs, x.obs...)
	}
	return obs, res
}

func isGround(t *Term) bool {
	fv := map[string]*Term{}
	FreeVars(t, fv)
	return len(fv) == 0
}

// ---------------------------------------------------------------- checksum registry (caller side)

func termString(t *Term) (string, bool) {
	var b []byte
	for _, s := range Segs(t) {
		if s.Op == "app" && s.Name == "unit" && s.Args[0].IsConst() {
			b = append(b, byte(s.Args[0].Val.Int64()))
		} else {
			return "", false
		}
	}
	return string(b), true
}

// serviceTypes maps an algorithm name to the service type whose Algorithm() contract returns it.
func (V *Verifier) serviceTypes() map[string]*types.Named {
	if V.svcTypes != nil {
		return V.svcTypes
	}
	V.svcTypes = map[string]*types.Named{}
	pkgPath := modPath + "/codec"
	p := V.pkgs[pkgPath]
	if p == nil {
		return V.svcTypes
	}
	for _, mem := range p.Members {
		t, ok := mem.(*ssa.Type)
		if !ok {
			continue
		}
		n, ok := t.Type().(*types.Named)
		if !ok {
			continue
		}
		fc := V.contractFor(pkgPath, "(*"+n.Obj().Name()+").Algorithm")
		if fc == nil || len(fc.Ensures) != 1 {
			continue
		}
		e := fc.Ensures[0]
		if e.Kind == "bin" && e.Name == "==" && e.Args[1].Kind == "str" {
			V.svcTypes[e.Args[1].Name] = n
		}
	}
	return V.svcTypes
}

// registryGet is the caller-side contract of codec.Get:
//
//	ensures \result.1 ==> Algorithm(\result.0) == algorithm          (every entry is filed under its own name, C19)
//	assumption registry_default: the built-in services are registered under their names when frames are encoded.
func (x *Exec) registryGet(st *State, args []Value) Value {
	alg := args[0].(VStr).T
	ok := FreshBool("registered")
	if name, isConst := termString(alg); isConst {
		if _, builtin := x.V.serviceTypes()[name]; builtin {
			x.V.assumptionsUsed["registry_default: the built-in checksum services are registered under their names (nobody removed them)"] = true
			ok = True
		}
	}
	x.V.noteGlobal(x.inst, modPath+"/codec.checksumServiceContext", "read-under-lock")
	return VTuple{VBox{Inner: VService{Alg: alg}, Type: nil, IsNil: Not(ok)}, VBool{ok}}
}
