package main

// Message layer: the schema contract every Encode / Decode method is used under (and verified
// against, per type), interface dispatch, discriminator tables, checksum services.

import (
	"fmt"
	"go/types"
	"sort"
	"strings"

	"golang.org/x/tools/go/ssa"
)

type CallRecord struct {
	Callee  string
	FC      *FuncContract
	Names   map[string]Value
	Results []Value
	PreU    *Term
	PostU   *Term
	In      ssa.Instruction
	Ordinal int
	Kind    string // codec | schema-encode | schema-decode | table | service
	Tag     *Term
	MV      *Term
	MVPost  *Term
	Sigma   Subst
	TArgs   []types.Type
}

func (x *Exec) recordCall(st *State, fc *FuncContract, cx *Exec, origin *ssa.Function, args []Value, res []Value, in ssa.Instruction, pre *State) {
	if x.onCall == nil {
		return
	}
	rec := &CallRecord{Callee: fc.Name, FC: fc, Names: cx.names, Results: res, In: in, Kind: "codec", Sigma: cx.sigma}
	if in != nil {
		rec.Ordinal = x.callNo[in]
	}
	for _, a := range args {
		if p, ok := a.(VPtr); ok && p.Obj != nil && p.Obj.Kind == "buffer" {
			rec.PreU = pre.get(p.Obj).Seq
			rec.PostU = st.get(p.Obj).Seq
		}
	}
	x.onCall(st, rec)
}

func dynOf(v Value) (*Obj, *Term) {
	switch r := v.(type) {
	case VPtr:
		if r.Obj != nil && r.Obj.Kind == "dyn" {
			return r.Obj, r.IsNil
		}
	case VIface:
		if r.Obj != nil {
			return r.Obj, r.IsNil
		}
	}
	return nil, nil
}

// invoke: interface method calls.
func (x *Exec) invoke(st *State, recv Value, m *types.Func, args []Value, in ssa.Instruction, cc *ssa.CallCommon) Value {
	switch m.Name() {
	case "Encode", "Decode":
		if o, _ := dynOf(recv); o != nil && len(args) == 1 {
			return x.schemaCall(st, m.Name(), recv, args[0], in, cc)
		}
	case "Algorithm":
		if b, ok := recv.(VBox); ok {
			switch iv := b.Inner.(type) {
			case VService:
				return VStr{iv.Alg}
			case VOpaque:
				x.V.assumptionsUsed["Algorithm() of a registered service is pure and stable"] = true
				s := App("svc_alg", SSeq, iv.T)
				st.assume(App("bytes", SBool, s))
				return VStr{s}
			case VPtr:
				if iv.Obj != nil {
					return VStr{x.V.algorithmOf(iv.Obj.Type)}
				}
			}
		}
	case "Calc":
		if b, ok := recv.(VBox); ok {
			if sv, ok := b.Inner.(VService); ok {
				x.nonNilCall(st, b.IsNil, "service", in)
				buf := x.bufOf(st, args[0], in, "checksum input")
				u := st.get(buf).Seq
				r := App("ck", SInt, sv.Alg, u)
				rt := cc.Signature().Results().At(0).Type()
				if ti, ok := x.tinfo(rt); ok {
					st.assume(inRange(ti, r))
				}
				if x.onCall != nil {
					x.onCall(st, &CallRecord{Callee: "Calc", Kind: "service", In: in, PreU: u, PostU: u, Tag: nil, Results: []Value{VInt{r}}})
				}
				return VInt{r}
			}
		}
	}
	x.oblige(st, "frame", fmt.Sprintf("uncontracted-invoke(%s)@b%d", m.Name(), blockIdx(in)), False, "interface method without a contract")
	st.dead = true
	return VOpaque{Why: "uncontracted invoke"}
}

func (x *Exec) serviceImplements(sv VService, at types.Type) *Term {
	// a registered service implements ChecksumService[*bytes.Buffer, R] for the R of its Calc
	return App("svc_implements", SBool, sv.Alg, App("ifacetype_"+sanitize(types.TypeString(at, func(p *types.Package) string { return p.Name() })), SInt))
}

func sanitize(s string) string {
	return strings.Map(func(r rune) rune {
		if r >= 'a' && r <= 'z' || r >= 'A' && r <= 'Z' || r >= '0' && r <= '9' || r == '_' {
			return r
		}
		return '_'
	}, s)
}

// schemaCall applies the message-layer schema contract of DESIGN.md §6.1 at a call site.
//
//	Encode: requires p != nil, buf != nil;   assigns buf.u, p.mv
//	        ensures  buf.u extends old(buf.u)                                   (append-only, also on error)
//	        ensures  err == nil ==> buf.u == old(buf.u) ++ Wd(tag, old(mv)) && Wd(tag, mv) == Wd(tag, old(mv)) && canond(tag,mv) == canond(tag,old(mv))
//	        ensures  encok(tag, old(mv)) ==> err == nil
//	Decode: requires p != nil, buf != nil;   assigns buf.u, p.mv
//	        ensures  buf.u is a suffix of old(buf.u)
//	        behavior re: err == nil ==> old(buf.u) == Wd(tag, mv) ++ buf.u && canond(tag, mv) && encok(tag, mv)
//	        behavior rt (ghost v, r): canond(tag,v) && old(buf.u) == Wd(tag,v) ++ r ==> err == nil && buf.u == r && mv == v
func (x *Exec) schemaCall(st *State, method string, recv Value, bufv Value, in ssa.Instruction, cc *ssa.CallCommon) Value {
	o, isnil := dynOf(recv)
	if o == nil {
		panic("unsupported:" + method + " on a receiver that is not a message part")
	}
	n := 0
	if in != nil {
		n = x.callNo[in]
	}
	label := fmt.Sprintf("call(%s#%d)", method, n)
	if isnil != nil && !isnil.IsFalse() {
		x.oblige(st, "safe", label+"/receiver-non-nil", Not(isnil), "receiver of "+method+" is not nil")
		st.assume(Not(isnil))
	}
	buf := x.bufOf(st, bufv, in, "buf")
	c := st.get(o)
	tag, mv0 := c.Tag, c.MV
	u0 := st.get(buf).Seq
	u1 := FreshSeq(buf.Name + ".u")
	st.assume(App("bytes", SBool, u1))
	mv1 := FreshInt(o.Name + ".mv")
	bc := st.mut(buf)
	bc.Seq = u1
	bc.Epoch++
	st.mut(o).MV = mv1
	hasErr := cc.Signature().Results().Len() == 1
	errNil := True
	if hasErr {
		errNil = FreshBool(method + ".err.isnil")
	}
	W := func(v *Term) *Term { return App("Wd", SSeq, tag, v) }
	canon := func(v *Term) *Term { return App("canond", SBool, tag, v) }
	encok := func(v *Term) *Term { return App("encok", SBool, tag, v) }
	st.assume(App("bytes", SBool, W(mv0)))
	rec := &CallRecord{Callee: method, In: in, Ordinal: n, PreU: u0, Tag: tag, MV: mv0, MVPost: mv1}
	if method == "Encode" {
		rec.Kind = "schema-encode"
		st.assume(And(Le(Len(u0), Len(u1)), Eq(Take(u1, Len(u0)), u0)))
		okc := encok(mv0)
		if x.assumeOK != nil {
			x.assumeOK(st, nil, in, okc)
		}
		st.assume(Implies(okc, errNil))
		st.assume(Implies(errNil, And(Eq(u1, Cat(u0, W(mv0))), Eq(W(mv1), W(mv0)), Eq(canon(mv1), canon(mv0)), Eq(encok(mv1), encok(mv0)))))
		if errNil.IsTrue() || st.implied(errNil) == 1 {
			bc.Seq = Cat(u0, W(mv0))
		}
		st.alloc = Add(st.alloc, IntC(0))
	} else {
		rec.Kind = "schema-decode"
		st.assume(And(Le(Len(u1), Len(u0)), Eq(Drop(u0, Sub(Len(u0), Len(u1))), u1)))
		// re
		st.assume(Implies(errNil, And(Eq(u0, Cat(W(mv1), u1)), canon(mv1), encok(mv1))))
		st.assume(Implies(errNil, Le(Add(Len(u1), App("minwidth", SInt, tag)), Len(u0))))
		// rt: ghosts (v, r) given explicitly by the caller's contract, or matched against the head of the buffer
		var gv, gr *Term
		if x.fc != nil && in != nil {
			for _, cg := range x.fc.CallGhost {
				if cg.Callee == "Decode" && cg.Ordinal == n && (cg.Behavior == "" || cg.Behavior == x.run) {
					ev := x.evaluator(st)
					ev.extra = st.lenv
					if e, ok := cg.Binds["v"]; ok {
						gv, _ = ev.term(e)
					}
					if e, ok := cg.Binds["r"]; ok {
						gr, _ = ev.term(e)
					}
				}
			}
		}
		segs := Segs(u0)
		if gv == nil && len(segs) > 0 && segs[0].Op == "app" && segs[0].Name == "Wd" && Same(segs[0].Args[0], tag) {
			gv = segs[0].Args[1]
			gr = Cat(segs[1:]...)
		}
		if gv != nil && gr != nil {
			hyp := And(canon(gv), Eq(u0, Cat(W(gv), gr)))
			st.assume(Implies(hyp, And(errNil, Eq(u1, gr), Eq(mv1, gv))))
			if st.implied(canon(gv)) == 1 && Same(u0, Cat(W(gv), gr)) {
				st.mut(buf).Seq = gr
				st.mut(o).MV = gv
				mv1 = gv
				rec.MVPost = gv
				if hasErr {
					st.assume(errNil)
				}
			}
		}
		// allocation: a nested decoder allocates in proportion to what it consumes (its own alloc obligation)
		na := FreshInt("alloc")
		consumed := Sub(Len(u0), Len(st.get(buf).Seq))
		st.assume(And(Le(st.alloc, na), Implies(errNil, Le(na, Add(st.alloc, IntC(allocB), Mul(IntC(allocA), consumed)))), Implies(Not(errNil), Le(na, Add(st.alloc, IntC(allocB), Mul(IntC(allocA), Len(u0)))))))
		st.alloc = na
	}
	rec.PostU = st.get(buf).Seq
	if x.onCall != nil {
		x.onCall(st, rec)
	}
	if hasErr {
		return VErr{errNil}
	}
	return VTuple{}
}

const allocA = 64   // bytes of allocation allowed per input byte consumed
const allocB = 4096 // constant allowance per decoder call

// ---------------------------------------------------------------- discriminator tables

type ExtractedTable struct {
	Name    string
	Entries []ExtractedEntry
	Bad     []string
}

type ExtractedEntry struct {
	Key *Term // boxed key constant (Int for numeric keys, Seq for text keys)
	Tag *Term
	Pos int
}

func (V *Verifier) bindTables() {
	for path, p := range V.pkgs {
		if !V.inRepo(path) {
			continue
		}
		for _, m := range p.Members {
			g, ok := m.(*ssa.Global)
			if !ok {
				continue
			}
			mt, ok := g.Type().(*types.Pointer).Elem().Underlying().(*types.Map)
			if !ok {
				continue
			}
			if _, ok := mt.Elem().Underlying().(*types.Signature); !ok {
				continue
			}
			ti := V.tables[path+"."+g.Name()]
			if ti == nil {
				ti = &TableInfo{Pkg: path}
				V.tables[path+"."+g.Name()] = ti
			}
			ti.Var = g.Name()
			// functions of the package that read / write this map
			for _, fm := range p.Members {
				fn, ok := fm.(*ssa.Function)
				if !ok || fn.Blocks == nil || strings.HasPrefix(fn.Name(), "init") {
					continue
				}
				reads, writes := false, false
				for _, b := range fn.Blocks {
					for _, in := range b.Instrs {
						if u, ok := in.(*ssa.UnOp); ok && u.X == g {
							for _, r := range *u.Referrers() {
								switch r.(type) {
								case *ssa.Lookup:
									reads = true
								case *ssa.MapUpdate:
									writes = true
								}
							}
						}
					}
				}
				if writes {
					ti.Registry = fn.Name()
					V.tableFuncs[path+"."+fn.Name()] = ti
				} else if reads {
					ti.Factory = fn.Name()
					V.tableFuncs[path+"."+fn.Name()] = ti
				}
			}
		}
	}
}

func keyTerm(keyType, lit string) *Term {
	if strings.HasPrefix(lit, "\"") {
		return strConst(strings.Trim(lit, "\""))
	}
	var v int64
	fmt.Sscanf(lit, "%d", &v)
	return IntC(v)
}

// tableTerms returns, for a symbolic key, the membership condition and the tag selected,
// according to the pinned table of the contract or the table extracted from init().
func (V *Verifier) tableTerms(ti *TableInfo, key *Term) (*Term, *Term, bool) {
	var keys, tags []*Term
	if V.tableMode == "extracted" {
		et := V.extracted[ti.Pkg+"."+ti.Var]
		if et == nil {
			return nil, nil, false
		}
		for _, e := range et.Entries {
			keys = append(keys, e.Key)
			tags = append(tags, e.Tag)
		}
	} else {
		if ti.T == nil {
			return nil, nil, false
		}
		pkgName := V.pkgs[ti.Pkg].Pkg.Name()
		for _, e := range ti.T.Entries {
			keys = append(keys, keyTerm(ti.T.KeyType, e[0]))
			tags = append(tags, App("tag_"+pkgName+"."+e[1], SInt))
		}
	}
	dom := False
	tag := App("tag_none", SInt)
	// later registrations of the same key overwrite earlier ones: scan from the last
	for i := len(keys) - 1; i >= 0; i-- {
		k := keys[i]
		if k.Sort != key.Sort {
			return nil, nil, false
		}
		dom = Or(dom, Eq(key, k))
	}
	for i := 0; i < len(keys); i++ {
		tag = Ite(Eq(key, keys[i]), tags[i], tag)
	}
	return dom, tag, true
}

func keyValueTerm(v Value) *Term {
	switch k := v.(type) {
	case VInt:
		return k.T
	case VStr:
		return k.T
	}
	return nil
}

// tableCall: the contract generated from a table block for New...MessageBy...(key) and Registry...Factory(key, f).
func (x *Exec) tableCall(st *State, ti *TableInfo, short string, args []Value, in ssa.Instruction, cc *ssa.CallCommon) Value {
	if short == ti.Registry {
		// effect: table[key] = factory
		g := x.V.pkgs[ti.Pkg].Members[ti.Var].(*ssa.Global)
		x.V.noteGlobal(x.inst, ti.Pkg+"."+ti.Var, "write")
		o := x.V.globalObj(st, x, g)
		m := st.get(o).Val.(VMap)
		x.mapWrite(st, m, args[0], args[1], false, in)
		return VTuple{}
	}
	x.V.noteGlobal(x.inst, ti.Pkg+"."+ti.Var, "read")
	key := keyValueTerm(args[0])
	if key == nil {
		panic("unsupported:table key")
	}
	dom, tag, ok := x.V.tableTerms(ti, key)
	if !ok {
		x.oblige(st, "frame", fmt.Sprintf("table-without-contract(%s)@b%d", ti.Var, blockIdx(in)), False, "discriminator table has no table block in the contract")
		st.dead = true
		return VOpaque{Why: "no table"}
	}
	if x.assumeOK != nil {
		x.assumeOK(st, nil, in, dom)
	}
	o := newObj("dyn", nil, short+"-result", "fresh")
	st.heap[o] = &Content{Tag: tag, MV: zeroMV(tag)}
	st.alloc = Add(st.alloc, IntC(256))
	errNil := FreshBool(short + ".err.isnil")
	st.assume(Eq(errNil, dom))
	if x.onCall != nil {
		x.onCall(st, &CallRecord{Callee: short, Kind: "table", In: in, Tag: tag, MV: key, Results: []Value{VBool{dom}}})
	}
	return VTuple{VIface{IsNil: Not(dom), Obj: o}, VErr{errNil}}
}

// sortedTableNames lists the tables of a package.
func (V *Verifier) sortedTableNames(pkg string) []string {
	var out []string
	for k, t := range V.tables {
		if t.Pkg == pkg && t.Var != "" {
			out = append(out, k)
		}
	}
	sort.Strings(out)
	return out
}
