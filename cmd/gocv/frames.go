package main

func (c *checkCtx) framesTask(prop string)  {}
func (c *checkCtx) registryTask()           {}
func (c *checkCtx) replay(o *Obligation) (bool, interface{}) { return false, "no replay harness for this obligation kind" }
