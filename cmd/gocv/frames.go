package main

// Engine E2 (frames / ownership) and the lock-discipline check of the checksum registry.

import (
	"fmt"
	"go/types"
	"sort"
	"strings"

	"golang.org/x/tools/go/ssa"
)

// globalWriters lists, for every package-level variable of the repository, the functions that store
// to it (directly, through a map update, or through an element / field address).
func (V *Verifier) globalWriters() map[string][]string {
	out := map[string][]string{}
	for path, p := range V.pkgs {
		if !V.inRepo(path) {
			continue
		}
		var fns []*ssa.Function
		for _, m := range p.Members {
			switch m := m.(type) {
			case *ssa.Function:
				fns = append(fns, m)
				fns = append(fns, m.AnonFuncs...)
			case *ssa.Type:
				ms := V.prog.MethodSets.MethodSet(types.NewPointer(m.Type()))
				for i := 0; i < ms.Len(); i++ {
					if f := V.prog.MethodValue(ms.At(i)); f != nil && f.Pkg == p {
						fns = append(fns, f)
					}
				}
			}
		}
		for _, fn := range fns {
			for _, b := range fn.Blocks {
				for _, in := range b.Instrs {
					var target ssa.Value
					switch in := in.(type) {
					case *ssa.Store:
						target = in.Addr
					case *ssa.MapUpdate:
						target = in.Map
					default:
						continue
					}
					// walk to the root of the address
					for {
						switch a := target.(type) {
						case *ssa.FieldAddr:
							target = a.X
							continue
						case *ssa.IndexAddr:
							target = a.X
							continue
						case *ssa.UnOp:
							target = a.X
							continue
						case *ssa.Slice:
							target = a.X
							continue
						}
						break
					}
					if g, ok := target.(*ssa.Global); ok && g.Pkg != nil && V.inRepo(g.Pkg.Pkg.Path()) {
						name := g.Pkg.Pkg.Path() + "." + g.Name()
						out[name] = append(out[name], fn.Name())
					}
				}
			}
		}
	}
	return out
}

func (c *checkCtx) framesTask(prop string) {
	_ = c.V
	// run every codec function and every Encode / Decode; the symbolic execution records provenance
	// obligations (C16) and every access to a package-level variable (C20)
	c.codecTask(nil, []string{"safe"})
	c.codecTask([]string{"(*Crc16ChecksumService).Calc", "(*Crc32ChecksumService).Calc", "(*SseBinChecksumService).Calc", "(*SzseBinChecksumService).Calc"}, []string{"safe"})
	c.msgTask("safe", "decsafe")
	c.tablesTask()
	if prop == "C16" {
		c.notes = append(c.notes, "strings are immutable values: string(b) and []byte(s) copy; unsafe, reflect and cgo are outside the verified subset, so a zero-copy conversion fails a subset or uncontracted-call obligation")
		return
	}
	c.globalsObligations(prop)
	c.notes = append(c.notes, "race-freedom follows from frames (disjoint write sets, shared data read-only or lock-protected) by the Go memory model; no interleaving is enumerated")
}

// globalsObligations turns the record of accesses to package-level variables made by the symbolic executions of this
// run into obligations: no write; reads only of variables that are written during initialisation only and hold no
// reference to mutable memory other than the pinned discriminator tables; the checksum registry only through
// codec.Get, and only from Encode methods (the frames).
func (c *checkCtx) globalsObligations(prop string) {
	V := c.V
	writers := V.globalWriters()
	var fns []string
	for f := range V.globalAccess {
		fns = append(fns, f)
	}
	sort.Strings(fns)
	n := 0
	for _, f := range fns {
		if strings.Contains(f, ".init") {
			continue // initialisation runs before any codec call
		}
		if f == "codec.Registry" || f == "codec.Get" || f == "codec.Remove" || f == "codec.Clear" {
			continue // the registry operations themselves: their discipline is C19's specification (registryTask)
		}
		var gs []string
		for g := range V.globalAccess[f] {
			gs = append(gs, g)
		}
		sort.Strings(gs)
		for _, g := range gs {
			how := V.globalAccess[f][g]
			short := g[strings.LastIndexByte(g, '/')+1:]
			if how["write"] {
				c.obs = append(c.obs, &Obligation{Name: fmt.Sprintf("%s/frame/no-global-write(%s)", f, short), Func: f, Kind: "frame", Props: []string{prop}, Goal: False,
					Detail: "no codec function stores to a package-level variable"})
				n++
				continue
			}
			// reads: the variable must be init-only (all stores in init or in the exported Registry...Factory hooks)
			// or the lock-protected checksum registry
			ok := true
			why := "init-only"
			if how["read-under-lock"] {
				why = "checksum registry, read through codec.Get under its RWMutex (C19)"
				if !strings.HasSuffix(f, ".Encode") && !strings.HasPrefix(f, "codec.Get") && !strings.HasPrefix(f, "codec.Registry") && !strings.HasPrefix(f, "codec.Remove") && !strings.HasPrefix(f, "codec.Clear") {
					ok = false
					why = "the checksum registry is consulted by a function other than a frame's Encode (its result would depend on what is registered at the moment)"
				}
			} else {
				if gt := V.globalType(g); gt != nil && !V.isTableVar(g) {
					switch gt.Underlying().(type) {
					case *types.Slice, *types.Map, *types.Pointer, *types.Chan, *types.Signature, *types.Interface:
						ok = false
						why = "the variable refers to memory that every call shares (a " + gt.String() + " that is not a pinned discriminator table)"
					}
				}
				for _, w := range writers[g] {
					if !(strings.HasPrefix(w, "init") || (strings.HasPrefix(w, "Registry") && strings.HasSuffix(w, "Factory"))) {
						ok = false
						why = "also written by " + w
					}
				}
			}
			c.obs = append(c.obs, &Obligation{Name: fmt.Sprintf("%s/frame/global-read-is-init-only(%s)", f, short), Func: f, Kind: "frame", Props: []string{prop}, Goal: BoolC(ok),
				Detail: "package-level state read by a codec function is only written during initialisation: " + why})
			n++
		}
	}
	if n == 0 {
		c.obs = append(c.obs, &Obligation{Name: "frame/no-global-state-touched", Kind: "frame", Props: []string{prop}, Goal: True, Detail: "no codec function touches package-level state"})
	}
}

// globalType: the type of the package-level variable "pkgpath.Name".
func (V *Verifier) globalType(g string) types.Type {
	i := strings.LastIndexByte(g, '.')
	if i < 0 {
		return nil
	}
	if p := V.pkgs[g[:i]]; p != nil {
		if gl, ok := p.Members[g[i+1:]].(*ssa.Global); ok {
			return gl.Type().(*types.Pointer).Elem()
		}
	}
	return nil
}

func (V *Verifier) isTableVar(g string) bool {
	for _, ti := range V.tables {
		if ti.Pkg+"."+ti.Var == g {
			return true
		}
	}
	return false
}

// ---------------------------------------------------------------- C19: the checksum registry

func (c *checkCtx) registryTask() {
	V := c.V
	pkgPath := modPath + "/codec"
	p := V.pkgs[pkgPath]
	for _, name := range []string{"Registry", "Get", "Remove", "Clear"} {
		fn := p.Func(name)
		if fn == nil {
			c.obs = append(c.obs, &Obligation{Name: "codec." + name + "/function-present", Kind: "contract", Goal: False, Detail: "registry operation exists"})
			continue
		}
		c.funcs["codec."+name] = true
		x := V.newExec(fn, nil, Subst{}, "codec."+name, "registry")
		x.emitSafe = true
		x.props = []string{"C19"}
		st := x.initialState()
		x.old = st.clone()
		var acq, lastMap *Term
		var acquired bool
		x.onAcquire = func(s *State, g *Obj) {

		}
		_ = acq
		_ = lastMap
		_ = acquired
		x.onRelease = func(s *State, mu *Obj) {
			for _, g := range guardedBy(s, mu) {
				if g.Kind == "map" && s.get(g).MV != nil {
					s.relState = s.get(g).MV
				}
			}
		}
		x.onAcquireState = func(s *State, g *Obj) {
			s.acqState = s.get(g).MV
		}
		x.onReturn = func(s *State, res []Value) {
			x.lockReturn(s)
			t := pathTag(s)
			A, R := s.acqState, s.relState
			k := Var("k!any", SInt)
			if A != nil && R == nil {
				// the lock was taken but the engine saw no release of a critical section that holds the map's state
				// (e.g. acquisition and release inside different helpers): nothing relates the two states
				x.oblige(s, "ensures", "one-critical-section@"+t, False, "the operation works in one critical section whose state at release is known")
				return
			}
			switch name {
			case "Registry":
				svc := x.names["service"].(VBox)
				id := svc.Inner.(VOpaque).T
				impl := App("implements_alg", SBool, id)
				alg := App("sbox", SInt, App("svc_alg", SSeq, id))
				r := res[0].(VBool).T
				if A == nil {
					x.oblige(s, "ensures", "not-a-service-is-refused@"+t, Not(r), "a value without Algorithm() (or a nil value) is refused without touching the registry")
					return
				}
				x.oblige(s, "ensures", "service@"+t, impl, "the lock is taken only for values that have an Algorithm()")
				x.oblige(s, "ensures", "existing-name-is-refused@"+t, Implies(mdom(A, alg), And(Not(r), Eq(R, A))), "registering an existing name returns false and changes nothing")
				x.oblige(s, "ensures", "new-name-is-inserted@"+t, Implies(Not(mdom(A, alg)), And(r, Eq(mdom(R, k), Or(Eq(k, alg), mdom(A, k))), Implies(Neq(k, alg), Eq(mval(R, k), mval(A, k))), Eq(App("svc_alg", SSeq, mval(R, alg)), App("svc_alg", SSeq, id)))),
					"registering a new name returns true and the registry becomes the old one plus exactly that entry, filed under its own Algorithm()")
			case "Get":
				name0 := App("sbox", SInt, x.names["algorithm"].(VStr).T)
				if A == nil {
					x.oblige(s, "ensures", "lock-taken@"+t, False, "Get reads the registry under the lock")
					return
				}
				ok := res[1].(VBool).T
				x.oblige(s, "ensures", "found-iff-registered@"+t, And(Eq(ok, mdom(A, name0)), Eq(R, A)), "Get reports exactly whether the name is registered and changes nothing")
				if b, isBox := res[0].(VBox); isBox {
					if sv, isSvc := b.Inner.(VService); isSvc {
						x.oblige(s, "ensures", "returns-the-registered-service@"+t, Implies(ok, Eq(sv.Alg, App("svc_alg", SSeq, mval(A, name0)))), "Get returns the service stored under that name")
					}
					x.oblige(s, "ensures", "nil-when-absent@"+t, Implies(Not(ok), orFalse(b.IsNil)), "Get returns nil for an unregistered name")
				}
			case "Remove":
				name0 := App("sbox", SInt, x.names["algorithm"].(VStr).T)
				if A == nil {
					x.oblige(s, "ensures", "lock-taken@"+t, False, "Remove works under the lock")
					return
				}
				x.oblige(s, "ensures", "entry-removed@"+t, And(Eq(mdom(R, k), And(Neq(k, name0), mdom(A, k))), Eq(mval(R, k), mval(A, k))), "Remove deletes exactly that name")
			case "Clear":
				if R == nil {
					x.oblige(s, "ensures", "lock-taken@"+t, False, "Clear works under the lock")
					return
				}
				x.oblige(s, "ensures", "registry-empty@"+t, Not(mdom(R, k)), "after Clear no name is registered")
			}
		}
		c.obs = append(c.obs, c.guard("codec."+name, "registry", func() []*Obligation {
			x.execAll(st)
			if x.returns == 0 {
				x.fail(st, "vacuity", "no-return-reached", "no path reaches a return")
			}
			return x.obs
		})...)
	}
	c.notes = append(c.notes,
		"what is proved: lock discipline (every access to the registry map lies in one critical section of its RWMutex, writes under the write lock, one acquisition per call, released on every path) and the sequential specification of each operation between the registry state at acquisition (havocked: other goroutines may have done anything) and at release",
		"assumed, not checked: sync.RWMutex provides mutual exclusion and the happens-before edges of the Go memory model; one critical section per operation with exclusive writers implies the operation is atomic at its acquisition, hence linearizable w.r.t. the sequential specification; Algorithm() of a service is pure and stable. No interleaving is enumerated.")
}

// registryInit: the package initialiser of codec registers the four built-in services under their names
// (this is what the assumption registry_default of the frame encoders rests on).
func (c *checkCtx) registryInit() {
	V := c.V
	pkgPath := modPath + "/codec"
	p := V.pkgs[pkgPath]
	type reg struct {
		key string
		typ types.Type
	}
	var regs []reg
	hook := func(x *Exec, st *State, o *Obj, k Value, bv *Term, val Value) {
		ks, ok := k.(VStr)
		if !ok {
			return
		}
		name, isConst := termString(ks.T)
		if !isConst {
			name = "?" + ks.T.Key()
		}
		var t types.Type
		if b, ok := val.(VBox); ok {
			t = b.Type
		}
		regs = append(regs, reg{name, t})
	}
	V.initHooks = append(V.initHooks, hook)
	defer func() { V.initHooks = V.initHooks[:len(V.initHooks)-1] }()
	ran := 0
	for name, mem := range p.Members {
		fn, ok := mem.(*ssa.Function)
		if !ok || !strings.HasPrefix(name, "init#") || len(fn.Blocks) == 0 {
			continue
		}
		ran++
		x := V.newExec(fn, nil, Subst{}, "codec."+fn.Name(), "init")
		x.emitSafe = true
		x.noAcqLimit = true
		x.props = []string{c.prop}
		st := x.initialState()
		// the registry map starts empty (package-level initialiser `cache: make(map[string]any)`)
		if g, ok := p.Members["checksumServiceContext"].(*ssa.Global); ok {
			o := V.globalObj(st, x, g)
			if ptr, ok := st.get(o).Val.(VPtr); ok && ptr.Obj != nil && ptr.Obj.Kind == "struct" {
				stt := ptr.Obj.Type.Underlying().(*types.Struct)
				for i := 0; i < stt.NumFields(); i++ {
					if _, isMap := stt.Field(i).Type().Underlying().(*types.Map); isMap {
						mv := x.load(st, VFieldPtr{Obj: ptr.Obj, Idx: i}, nil, stt.Field(i).Type())
						if m, ok := mv.(VMap); ok && m.Obj != nil {
							m0 := FreshInt("emptymap")
							kq := Var("k!e", SInt)
							st.assume(Forall([]*Term{kq}, Not(mdom(m0, kq)), mdom(m0, kq)))
							st.mut(m.Obj).MV = m0
						}
					}
				}
			}
		}
		x.old = st.clone()
		x.onReturn = func(s *State, r []Value) {}
		x.execAll(st)
		c.obs = append(c.obs, x.obs...)
	}
	if ran == 0 {
		c.obs = append(c.obs, &Obligation{Name: "codec.init/present", Kind: "contract", Props: []string{c.prop}, Goal: False, Detail: "package codec has an init function that registers the built-in services"})
	}
	var names []string
	for n := range V.serviceTypes() {
		names = append(names, n)
	}
	sort.Strings(names)
	for _, n := range names {
		want := V.serviceTypes()[n]
		ok := false
		got := "not registered"
		for _, r := range regs {
			if r.key == n {
				got = fmt.Sprint(r.typ)
				if nt := namedOf(r.typ); nt == want {
					ok = true
				}
			}
		}
		c.obs = append(c.obs, &Obligation{Name: fmt.Sprintf("codec.init/registers(%s)", n), Func: "codec.init", Kind: "ensures", Props: []string{c.prop}, Goal: BoolC(ok),
			Detail: fmt.Sprintf("init registers %s under the name its Algorithm() returns (found: %s)", want.Obj().Name(), got)})
	}
}
