package main

// Calls: trusted library contracts (bytes, encoding/binary, io, errors, fmt, hash/crc32, sync),
// built-ins, contracts of functions in /repo, the message-layer schema, globals and maps.

import (
	"fmt"
	"go/types"
	"strings"

	"golang.org/x/tools/go/ssa"
)

// VService is a registered checksum service value (identified by its algorithm name term).
type VService struct {
	Alg *Term // Seq: algorithm name
	Typ types.Type
}

func (x *Exec) doCall(st *State, cc *ssa.CallCommon, in ssa.Instruction) Value {
	var args []Value
	for _, a := range cc.Args {
		args = append(args, x.val(st, a))
	}
	return x.callWithArgs(st, cc, args, in)
}

func (x *Exec) callWithArgs(st *State, cc *ssa.CallCommon, args []Value, in ssa.Instruction) Value {
	if cc.IsInvoke() {
		recv := x.val(st, cc.Value)
		return x.invoke(st, recv, cc.Method, args, in, cc)
	}
	switch callee := cc.Value.(type) {
	case *ssa.Builtin:
		return x.builtin(st, callee, args, cc, in)
	case *ssa.Function:
		return x.callFunction(st, callee, args, in, cc)
	case *ssa.MakeClosure:
		fv := x.val(st, callee).(VFunc)
		return x.callFuncValue(st, fv, args, in, cc)
	}
	fv, ok := x.val(st, cc.Value).(VFunc)
	if !ok {
		panic("unsupported:call of non-function value")
	}
	return x.callFuncValue(st, fv, args, in, cc)
}

func blockIdx(in ssa.Instruction) int {
	if in == nil || in.Block() == nil {
		return -1
	}
	return in.Block().Index
}

func (x *Exec) resultOf(cc *ssa.CallCommon, vals ...Value) Value {
	sig := cc.Signature()
	if sig.Results().Len() == 0 {
		return VTuple{}
	}
	if sig.Results().Len() == 1 {
		return vals[0]
	}
	return VTuple(vals)
}

// ---------------------------------------------------------------- function values

func (x *Exec) callFuncValue(st *State, fv VFunc, args []Value, in ssa.Instruction, cc *ssa.CallCommon) Value {
	x.nonNilCall(st, fv.IsNil, "func value", in)
	if fv.TagOf != nil {
		// factory summary: returns a fresh zero message of the given dynamic type
		o := newObj("dyn", nil, "factory-result", "fresh")
		o.BornIn = x.currentLoop(st, in)
		st.heap[o] = &Content{Tag: fv.TagOf, MV: zeroMV(fv.TagOf)}
		st.alloc = Add(st.alloc, IntC(256))
		st.allocC += 256
		rt := cc.Signature().Results().At(0).Type()
		if _, isPtr := x.resolve(rt).Underlying().(*types.Pointer); isPtr {
			return VPtr{Obj: o, IsNil: False}
		}
		return VIface{IsNil: False, Obj: o}
	}
	if fv.Fn != nil {
		// closures are small: execute their body for its summary (no contract of their own)
		return x.inline(st, fv.Fn, args, fv.Bindings, in)
	}
	panic("unsupported:call of unknown function value")
}

func (x *Exec) nonNilCall(st *State, isnil *Term, what string, in ssa.Instruction) {
	if isnil == nil || isnil.IsFalse() {
		return
	}
	x.oblige(st, "safe", fmt.Sprintf("nil-call(%s)@b%d", what, blockIdx(in)), Not(isnil), what+" is not nil when called")
	st.assume(Not(isnil))
}

// inline executes a closure or a contract-less, loop-free, non-recursive helper of the repository in
// place: its strongest post-condition is computed, not assumed. Several return paths fork the caller.
func (x *Exec) inline(st *State, fn *ssa.Function, args []Value, bindings []Value, in ssa.Instruction) Value {
	if len(fn.Blocks) == 0 {
		panic("unsupported:call of external function " + fn.String())
	}
	if x.inlineDepth >= 4 {
		panic("unsupported:helper nesting too deep or recursive " + fn.String())
	}
	sub := &Exec{V: x.V, fn: fn, sigma: x.sigma, run: x.run, inst: x.inst, emitSafe: x.emitSafe, props: x.props, holes: x.holes, names: map[string]Value{},
		assumeOK: x.assumeOK, assumeBeh: x.assumeBeh, onCall: x.onCall, rtMode: x.rtMode, inlineDepth: x.inlineDepth + 1, maxPaths: 2000, trackWrites: x.trackWrites, noAcqLimit: x.noAcqLimit}
	if fn.TypeParams() != nil && fn.TypeParams().Len() > 0 {
		panic("unsupported:generic helper without a contract " + fn.String())
	}
	sub.findLoops()
	sub.numberCalls()
	if len(sub.loops) > 0 {
		// A helper with loops has no contract of its own, but the caller's contract may carry loop specifications
		// that its own body does not use (the loops were moved into the helper): they are applied to the helper's
		// loops, in order, after the caller's own. They are checked like any invariant (entry, preservation, variant).
		own := len(x.loops)
		spare := 0
		if x.fc != nil {
			for n := range x.fc.Loops {
				if n > own {
					spare++
				}
			}
		}
		if x.fc == nil || spare < len(sub.loops) || x.inlineDepth > 0 {
			panic("unsupported:helper " + fn.Name() + " has a loop and no contract")
		}
		sub.fc = &FuncContract{Name: x.fc.Name, Loops: map[int]*LoopSpec{}}
		for h, li := range sub.loops {
			li.spec = x.fc.Loops[own+li.ordinal]
			li.ordinal = own + li.ordinal
			sub.loops[h] = li
		}
		sub.names, sub.ghosts, sub.old = x.names, x.ghosts, x.old
	}
	saved := st.env
	st.env = map[ssa.Value]Value{}
	for i, p := range fn.Params {
		st.env[p] = args[i]
	}
	for i, fv := range fn.FreeVars {
		st.env[fv] = bindings[i]
	}
	type ret struct {
		s   *State
		val Value
	}
	var rets []ret
	sub.onReturn = func(s *State, res []Value) {
		var v Value
		switch len(res) {
		case 0:
			v = VTuple{}
		case 1:
			v = res[0]
		default:
			v = VTuple(res)
		}
		rets = append(rets, ret{s, v})
	}
	sub.execFrom(st, fn.Blocks[0], nil)
	x.obs = append(x.obs, sub.obs...)
	x.unsupported = append(x.unsupported, sub.unsupported...)
	var mine *ret
	for i := range rets {
		r := &rets[i]
		if r.s == st && mine == nil {
			mine = r
			continue
		}
		r.s.env = make(map[ssa.Value]Value, len(saved))
		for k, v := range saved {
			r.s.env[k] = v
		}
		x.pendingForks = append(x.pendingForks, fork{st: r.s, val: r.val})
	}
	st.env = saved
	if mine == nil {
		st.dead = true
		return VOpaque{Why: "helper did not return on this path"}
	}
	return mine.val
}

// ---------------------------------------------------------------- built-ins

func (x *Exec) builtin(st *State, b *ssa.Builtin, args []Value, cc *ssa.CallCommon, in ssa.Instruction) Value {
	switch b.Name() {
	case "len":
		switch a := args[0].(type) {
		case VSlice:
			return VInt{sliceLen(a)}
		case VStr:
			return VInt{Len(a.T)}
		case VMap:
			return VInt{FreshInt("maplen")}
		}
	case "cap":
		if a, ok := args[0].(VSlice); ok {
			return VInt{a.Cap}
		}
	case "min", "max":
		r := x.intOf(args[0])
		for _, a := range args[1:] {
			q := x.intOf(a)
			if b.Name() == "min" {
				r = Ite(Le(r, q), r, q)
			} else {
				r = Ite(Ge(r, q), r, q)
			}
		}
		return VInt{r}
	case "append":
		s := args[0].(VSlice)
		var add *Term
		switch t := args[1].(type) {
		case VSlice:
			add = x.sliceContent(st, t)
		case VStr:
			add = t.T
		default:
			panic("unsupported:append operand")
		}
		old := x.sliceContent(st, s)
		newc := Cat(old, add)
		newlen := Add(sliceLen(s), Len(add))
		fits := Le(newlen, s.Cap)
		sz := typeSize(x.resolve(s.Elem))
		if fits.IsTrue() {
			// no growth
		} else {
			// amortised growth: at most twice the new length plus a size-class constant
			st.alloc = Add(st.alloc, Ite(fits, IntC(0), Add(Mul(IntC(2*sz), newlen), IntC(64))))
		}
		ncap := FreshInt("cap")
		st.assume(Le(newlen, ncap))
		st.assume(Implies(fits, Eq(ncap, s.Cap)))
		prov := "fresh"
		if s.Arr != nil && s.Arr.Prov != "fresh" && s.Arr.Prov != "" && !(s.IsNil != nil && s.IsNil.IsTrue()) {
			prov = s.Arr.Prov // appending within spare capacity writes into the original backing array
		}
		arr := x.newArray(st, s.Elem, newc, "appended", prov)
		return VSlice{Arr: arr, Lo: IntC(0), Hi: newlen, Cap: ncap, IsNil: False, Elem: s.Elem}
	case "copy":
		dst := args[0].(VSlice)
		var src *Term
		switch t := args[1].(type) {
		case VSlice:
			src = x.sliceContent(st, t)
		case VStr:
			src = t.T
		}
		n := Ite(Le(sliceLen(dst), Len(src)), sliceLen(dst), Len(src))
		x.writeInto(st, dst, Take(src, n), in)
		return VInt{n}
	case "delete":
		m := args[0].(VMap)
		x.mapWrite(st, m, args[1], nil, true, in)
		return VTuple{}
	}
	panic("unsupported:builtin " + b.Name())
}

// writeInto overwrites the first len(data) elements of the slice window with data.
func (x *Exec) writeInto(st *State, dst VSlice, data *Term, in ssa.Instruction) {
	c := st.mut(dst.Arr)
	if dst.Arr.Kind == "buffer" && dst.Epoch != c.Epoch {
		x.obligeProps(st, "safe", fmt.Sprintf("stale-buffer-view@b%d", blockIdx(in)), False, "slice from buf.Bytes() used after the buffer was modified (the model of the write / read is only valid for a live view, so this is an obligation of every run)", x.props)
	}
	c.Seq = Splice(c.Seq, dst.Lo, data)
}

// ---------------------------------------------------------------- static calls

func shortFuncName(fn *ssa.Function) string {
	if fn.Signature.Recv() != nil {
		rt := fn.Signature.Recv().Type()
		ptr := ""
		if p, ok := rt.(*types.Pointer); ok {
			rt = p.Elem()
			ptr = "*"
		}
		if n, ok := rt.(*types.Named); ok {
			return "(" + ptr + n.Obj().Name() + ")." + fn.Name()
		}
	}
	return fn.Name()
}

func (x *Exec) callFunction(st *State, fn *ssa.Function, args []Value, in ssa.Instruction, cc *ssa.CallCommon) Value {
	origin := fn
	var targs []types.Type
	if fn.Origin() != nil {
		origin = fn.Origin()
		for _, t := range fn.TypeArgs() {
			targs = append(targs, x.resolve(t))
		}
	}
	full := origin.String()
	if v, ok := x.stdlib(st, full, args, in, cc); ok {
		return v
	}
	if origin.Pkg != nil && x.V.inRepo(origin.Pkg.Pkg.Path()) {
		short := shortFuncName(origin)
		// message-layer Encode / Decode: schema contract
		if origin.Signature.Recv() != nil && (origin.Name() == "Encode" || origin.Name() == "Decode") && hasCodecMethods(origin.Signature.Recv().Type()) {
			return x.schemaCall(st, origin.Name(), args[0], args[1], in, cc)
		}
		if origin.Pkg.Pkg.Path() == modPath+"/codec" && short == "Get" && x.fn != origin {
			return x.registryGet(st, args)
		}
		if fc := x.V.contractFor(origin.Pkg.Pkg.Path(), short); fc != nil {
			return x.applyContract(st, fc, origin, targs, args, in, cc)
		}
		if tb := x.V.tableFuncs[origin.Pkg.Pkg.Path()+"."+short]; tb != nil {
			return x.tableCall(st, tb, short, args, in, cc)
		}
		if origin.Signature.Recv() == nil || true {
			// a helper of the repository without a contract: loop-free, non-recursive bodies are executed in place
			x.V.assumptionsUsed["contract-less loop-free helpers of the repository are executed in place (their strongest post-condition is computed, not assumed)"] = true
			return x.inline(st, origin, args, nil, in)
		}
		x.oblige(st, "frame", fmt.Sprintf("uncontracted-call(%s)@b%d", short, blockIdx(in)), False, "call to a function of the repository that has no contract")
		st.dead = true
		return VOpaque{Why: "uncontracted"}
	}
	x.oblige(st, "frame", fmt.Sprintf("uncontracted-call(%s)@b%d", full, blockIdx(in)), False, "call to a library function without a trusted contract")
	st.dead = true
	return VOpaque{Why: "uncontracted"}
}

func (x *Exec) bufOf(st *State, v Value, in ssa.Instruction, what string) *Obj {
	switch p := v.(type) {
	case VPtr:
		x.nonNil(st, p.IsNil, what, in)
		if p.Obj != nil && p.Obj.Kind == "buffer" {
			return p.Obj
		}
	case VBox:
		return x.bufOf(st, p.Inner, in, what)
	}
	panic("unsupported:" + what + " is not a *bytes.Buffer")
}

func (x *Exec) appendBuf(st *State, b *Obj, data *Term) {
	c := st.mut(b)
	c.Seq = Cat(c.Seq, data)
	c.Epoch++
}

func (x *Exec) trusted(name string) { x.V.trustedUsed[name] = true }

// takeKnown returns the first n elements of u when n <= len(u) is known: structurally when the
// segments line up, otherwise as a fresh symbol of known length constrained to equal take(u,n).
func (x *Exec) takeKnown(st *State, u, n *Term, name string) *Term {
	t := Take(u, n)
	if !(t.Op == "app" && t.Name == "take") {
		return t
	}
	d := FreshSeq(name)
	lenHints[d.Name] = n
	st.assume(And(Eq(d, t), Eq(App("len", SInt, d), n), App("bytes", SBool, d)))
	return d
}

// stdlib implements the trusted contracts of DESIGN.md §5.1 over the ghost content u of a buffer.
func (x *Exec) stdlib(st *State, full string, args []Value, in ssa.Instruction, cc *ssa.CallCommon) (Value, bool) {
	switch full {
	case "(*bytes.Buffer).Len":
		x.trusted(full)
		b := x.bufOf(st, args[0], in, "buf")
		return VInt{Len(st.get(b).Seq)}, true
	case "(*bytes.Buffer).Cap", "(*bytes.Buffer).Available":
		x.trusted(full)
		x.bufOf(st, args[0], in, "buf")
		n := FreshInt("bufcap")
		st.assume(Le(IntC(0), n))
		return VInt{n}, true
	case "(*bytes.Buffer).Bytes":
		x.trusted(full)
		b := x.bufOf(st, args[0], in, "buf")
		c := st.get(b)
		cp := FreshInt("bytescap")
		st.assume(Le(Len(c.Seq), cp))
		return VSlice{Arr: b, Lo: IntC(0), Hi: Len(c.Seq), Cap: cp, IsNil: False, Epoch: c.Epoch, Elem: types.Typ[types.Byte]}, true
	case "(*bytes.Buffer).Write":
		x.trusted(full)
		b := x.bufOf(st, args[0], in, "buf")
		data := x.sliceContent(st, args[1].(VSlice))
		x.appendBuf(st, b, data)
		return VTuple{VInt{Len(data)}, VErr{True}}, true
	case "(*bytes.Buffer).WriteString":
		x.trusted(full)
		b := x.bufOf(st, args[0], in, "buf")
		data := args[1].(VStr).T
		x.appendBuf(st, b, data)
		return VTuple{VInt{Len(data)}, VErr{True}}, true
	case "(*bytes.Buffer).WriteByte":
		x.trusted(full)
		b := x.bufOf(st, args[0], in, "buf")
		x.appendBuf(st, b, Unit(x.intOf(args[1])))
		return VErr{True}, true
	case "(*bytes.Buffer).Reset":
		x.trusted(full)
		b := x.bufOf(st, args[0], in, "buf")
		c := st.mut(b)
		c.Seq = Empty
		c.Epoch++
		return VTuple{}, true
	case "(*bytes.Buffer).Grow":
		x.trusted(full)
		b := x.bufOf(st, args[0], in, "buf")
		x.oblige(st, "safe", fmt.Sprintf("grow-nonneg@b%d", blockIdx(in)), Le(IntC(0), x.intOf(args[1])), "Grow count is not negative")
		st.mut(b).Epoch++
		return VTuple{}, true
	case "(*bytes.Buffer).Truncate":
		x.trusted(full)
		b := x.bufOf(st, args[0], in, "buf")
		n := x.intOf(args[1])
		c := st.mut(b)
		x.oblige(st, "safe", fmt.Sprintf("truncate-range@b%d", blockIdx(in)), And(Le(IntC(0), n), Le(n, Len(c.Seq))), "Truncate within 0..Len")
		c.Seq = Take(c.Seq, n)
		c.Epoch++
		return VTuple{}, true
	case "(*bytes.Buffer).Next":
		x.trusted(full)
		b := x.bufOf(st, args[0], in, "buf")
		n := x.intOf(args[1])
		c := st.mut(b)
		x.oblige(st, "safe", fmt.Sprintf("next-nonneg@b%d", blockIdx(in)), Le(IntC(0), n), "Next count is not negative")
		m := Ite(Le(n, Len(c.Seq)), n, Len(c.Seq))
		data := Take(c.Seq, m)
		c.Seq = Drop(c.Seq, m)
		c.Epoch++
		arr := x.newArray(st, types.Typ[types.Byte], data, "next-view", "view:"+b.Name)
		return VSlice{Arr: arr, Lo: IntC(0), Hi: Len(data), Cap: Len(data), IsNil: False, Elem: types.Typ[types.Byte]}, true
	case "(*bytes.Buffer).ReadByte":
		x.trusted(full)
		b := x.bufOf(st, args[0], in, "buf")
		c := st.mut(b)
		has := Lt(IntC(0), Len(c.Seq))
		v := At(c.Seq, IntC(0))
		c.Seq = Ite(has, Drop(c.Seq, IntC(1)), c.Seq)
		c.Epoch++
		return VTuple{VInt{Ite(has, v, IntC(0))}, VErr{has}}, true
	case "(*bytes.Buffer).Read":
		x.trusted(full)
		b := x.bufOf(st, args[0], in, "buf")
		p := args[1].(VSlice)
		u := st.get(b).Seq
		enough := Le(sliceLen(p), Len(u))
		switch st.implied(enough) {
		case 0:
			s2 := st.clone()
			s2.assume(Not(enough))
			x.writeInto(s2, p, u, in)
			c2 := s2.mut(b)
			c2.Seq = Empty
			c2.Epoch++
			// fewer bytes than asked: n = len(u); io.EOF only when the buffer was empty
			x.pendingForks = append(x.pendingForks, fork{st: s2, val: VTuple{VInt{Len(u)}, VErr{Lt(IntC(0), Len(u))}}})
			st.assume(enough)
		case -1:
			x.writeInto(st, p, u, in)
			c := st.mut(b)
			c.Seq = Empty
			c.Epoch++
			return VTuple{VInt{Len(u)}, VErr{Lt(IntC(0), Len(u))}}, true
		}
		n := sliceLen(p)
		// empty buffer: (0, nil) when len(p) == 0, else (0, io.EOF)
		errNil := Or(Lt(IntC(0), Len(u)), Eq(n, IntC(0)))
		x.writeInto(st, p, x.takeKnown(st, u, n, "read"), in)
		c := st.mut(b)
		c.Seq = Drop(u, n)
		c.Epoch++
		return VTuple{VInt{n}, VErr{errNil}}, true
	case "bytes.NewBuffer":
		x.trusted(full)
		s := args[0].(VSlice)
		o := newObj("buffer", nil, "newbuffer", "view:"+s.Arr.Name)
		if s.Arr.Prov == "fresh" {
			o.Prov = "fresh"
		}
		st.heap[o] = &Content{Seq: x.sliceContent(st, s)}
		st.alloc = Add(st.alloc, IntC(40))
		return VPtr{Obj: o, IsNil: False}, true
	case "bytes.NewBufferString":
		x.trusted(full)
		o := newObj("buffer", nil, "newbuffer", "fresh")
		st.heap[o] = &Content{Seq: args[0].(VStr).T}
		return VPtr{Obj: o, IsNil: False}, true
	case "bytes.Repeat":
		x.trusted(full)
		b := args[0].(VSlice)
		n := x.intOf(args[1])
		x.oblige(st, "safe", fmt.Sprintf("repeat-nonneg@b%d", blockIdx(in)), Le(IntC(0), n), "bytes.Repeat count is not negative")
		st.assume(Le(IntC(0), n))
		bc := x.sliceContent(st, b)
		var c *Term
		if Same(Len(bc), IntC(1)) {
			c = Rep(At(bc, IntC(0)), n)
			if segs := Segs(bc); len(segs) == 1 && segs[0].Op == "app" && segs[0].Name == "unit" {
				c = Rep(segs[0].Args[0], n)
			}
		} else {
			c = FreshSeq("repeated")
			st.assume(Eq(Len(c), Mul(n, Len(bc))))
		}
		st.alloc = Add(st.alloc, Mul(n, Len(bc)))
		arr := x.newArray(st, types.Typ[types.Byte], c, "repeated", "fresh")
		return VSlice{Arr: arr, Lo: IntC(0), Hi: Len(c), Cap: Len(c), IsNil: False, Elem: types.Typ[types.Byte]}, true
	case "io.ReadFull":
		x.trusted(full)
		b := x.bufOf(st, args[0], in, "reader")
		p := args[1].(VSlice)
		u := st.get(b).Seq
		enough := Le(sliceLen(p), Len(u))
		switch st.implied(enough) {
		case 0:
			s2 := st.clone()
			s2.assume(Not(enough))
			x.writeInto(s2, p, u, in)
			c2 := s2.mut(b)
			c2.Seq = Empty
			c2.Epoch++
			x.pendingForks = append(x.pendingForks, fork{st: s2, val: VTuple{VInt{Len(u)}, VErr{False}}})
			st.assume(enough)
		case -1:
			x.writeInto(st, p, u, in)
			c := st.mut(b)
			c.Seq = Empty
			c.Epoch++
			return VTuple{VInt{Len(u)}, VErr{False}}, true
		}
		n := sliceLen(p)
		x.writeInto(st, p, x.takeKnown(st, u, n, "readfull"), in)
		c := st.mut(b)
		c.Seq = Drop(u, n)
		c.Epoch++
		return VTuple{VInt{n}, VErr{True}}, true
	case "encoding/binary.Write":
		x.trusted(full)
		b := x.bufOf(st, args[0], in, "writer")
		ord := x.orderOf(args[1])
		val, ti := x.scalarOf(st, args[2], in)
		x.appendBuf(st, b, App("enc", SSeq, ordTerm(ord), IntC(int64(ti.Width)), ubits(ti, val)))
		return VErr{True}, true
	case "encoding/binary.Read":
		x.trusted(full)
		b := x.bufOf(st, args[0], in, "reader")
		ord := x.orderOf(args[1])
		bx, ok := args[2].(VBox)
		if !ok {
			panic("unsupported:binary.Read target")
		}
		ptr, ok := bx.Inner.(VPtr)
		if !ok || ptr.Obj == nil || ptr.Obj.Kind != "cell" {
			panic("unsupported:binary.Read into non-scalar")
		}
		ti, ok := x.tinfo(ptr.Obj.Type)
		if !ok || ti.Kind == "string" || ti.Kind == "bool" {
			panic("unsupported:binary.Read into " + ptr.Obj.Type.String())
		}
		w := IntC(int64(ti.Width))
		u := st.get(b).Seq
		enough := Le(w, Len(u))
		if !enough.IsTrue() && !enough.IsFalse() {
			// fork: short input
			s2 := st.clone()
			s2.assume(Not(enough))
			c2 := s2.mut(b)
			c2.Seq = Empty
			c2.Epoch++
			x.pendingForks = append(x.pendingForks, fork{st: s2, val: VErr{False}})
			st.assume(enough)
		}
		if enough.IsFalse() {
			c := st.mut(b)
			c.Seq = Empty
			c.Epoch++
			return VErr{False}, true
		}
		c := st.mut(b)
		d := App("dec", SInt, ordTerm(ord), w, x.takeKnown(st, u, w, "scalar"))
		c.Seq = Drop(u, w)
		c.Epoch++
		st.mut(ptr.Obj).Val = VInt{fromBits(ti, d)}
		st.assume(And(Le(IntC(0), d), Lt(d, Pow2(8*ti.Width))))
		st.alloc = Add(st.alloc, w)
		return VErr{True}, true
	case "errors.New", "fmt.Errorf":
		x.trusted(full)
		st.alloc = Add(st.alloc, IntC(64))
		st.allocC += 64
		return VErr{False}, true
	case "fmt.Sprintf", "fmt.Sprint":
		x.trusted(full)
		s := FreshSeq("sprintf")
		st.assume(App("bytes", SBool, s))
		return VStr{s}, true
	case "hash/crc32.ChecksumIEEE":
		x.trusted(full)
		c := x.sliceContent(st, args[0].(VSlice))
		r := App("crc32_ieee", SInt, c)
		st.assume(And(Le(IntC(0), r), Lt(r, Pow2(32))))
		return VInt{r}, true
	case "(*sync.RWMutex).Lock", "(*sync.RWMutex).Unlock", "(*sync.RWMutex).RLock", "(*sync.RWMutex).RUnlock",
		"(*sync.Mutex).Lock", "(*sync.Mutex).Unlock":
		x.trusted(full)
		x.lockOp(st, args[0], full[strings.LastIndexByte(full, '.')+1:], in)
		return VTuple{}, true
	}
	if strings.HasPrefix(full, "(encoding/binary.bigEndian).") || strings.HasPrefix(full, "(encoding/binary.littleEndian).") {
		le := strings.HasPrefix(full, "(encoding/binary.littleEndian).")
		m := full[strings.LastIndexByte(full, '.')+1:]
		x.trusted("encoding/binary.ByteOrder." + m)
		var w int
		switch {
		case strings.HasSuffix(m, "16"):
			w = 2
		case strings.HasSuffix(m, "32"):
			w = 4
		case strings.HasSuffix(m, "64"):
			w = 8
		default:
			return nil, false
		}
		sl := args[1].(VSlice)
		x.oblige(st, "safe", fmt.Sprintf("byteorder-bounds(%s)@b%d", m, blockIdx(in)), Le(IntC(int64(w)), sliceLen(sl)), "slice given to "+m+" has at least "+fmt.Sprint(w)+" bytes")
		st.assume(Le(IntC(int64(w)), sliceLen(sl)))
		o := IntC(0)
		if le {
			o = IntC(1)
		}
		if strings.HasPrefix(m, "PutUint") {
			x.writeInto(st, sl, App("enc", SSeq, o, IntC(int64(w)), x.intOf(args[2])), in)
			return VTuple{}, true
		}
		if strings.HasPrefix(m, "Uint") {
			c := x.sliceContent(st, sl)
			d := App("dec", SInt, o, IntC(int64(w)), Take(c, IntC(int64(w))))
			st.assume(And(Le(IntC(0), d), Lt(d, Pow2(8*w))))
			return VInt{d}, true
		}
	}
	return nil, false
}

type fork struct {
	st  *State
	val Value
}

func ordTerm(le bool) *Term {
	if le {
		return IntC(1)
	}
	return IntC(0)
}

func (x *Exec) orderOf(v Value) bool {
	if b, ok := v.(VBox); ok {
		v = b.Inner
	}
	if o, ok := v.(VOrder); ok {
		return o.LE
	}
	panic("unsupported:byte order is not binary.BigEndian / binary.LittleEndian")
}

// scalarOf extracts the fixed-size basic value handed to binary.Write (by value or by pointer).
func (x *Exec) scalarOf(st *State, v Value, in ssa.Instruction) (*Term, TypeInfo) {
	bx, ok := v.(VBox)
	if !ok {
		panic("unsupported:binary.Write data")
	}
	switch iv := bx.Inner.(type) {
	case VInt:
		ti, ok := x.tinfo(bx.Type)
		if !ok {
			panic("unsupported:binary.Write of " + bx.Type.String())
		}
		if ti.Width == 8 && types.Identical(x.resolve(bx.Type).Underlying(), types.Typ[types.Int]) {
			panic("unsupported:binary.Write of int (not fixed-size)")
		}
		return iv.T, ti
	case VPtr:
		if iv.Obj != nil && iv.Obj.Kind == "cell" {
			ti, ok := x.tinfo(iv.Obj.Type)
			if ok && ti.Kind != "string" && ti.Kind != "bool" {
				return x.intOf(st.get(iv.Obj).Val), ti
			}
		}
	}
	panic("unsupported:binary.Write of non-scalar data")
}

// ---------------------------------------------------------------- globals

func (x *Exec) loadGlobal(st *State, g *ssa.Global, in ssa.Instruction) Value {
	full := g.Pkg.Pkg.Path() + "." + g.Name()
	switch full {
	case "encoding/binary.BigEndian":
		return VOrder{LE: false}
	case "encoding/binary.LittleEndian":
		return VOrder{LE: true}
	}
	if isErrorType(g.Type().(*types.Pointer).Elem()) && !x.V.inRepo(g.Pkg.Pkg.Path()) {
		return VErr{False} // library sentinel errors (io.EOF, io.ErrUnexpectedEOF ...) are non-nil
	}
	x.V.noteGlobal(x.inst, full, "read")
	if x.V.inRepo(g.Pkg.Pkg.Path()) {
		o := x.V.globalObj(st, x, g)
		return st.get(o).Val
	}
	panic("unsupported:read of library global " + full)
}

func (x *Exec) storeGlobal(st *State, g *ssa.Global, v Value, in ssa.Instruction) {
	full := g.Pkg.Pkg.Path() + "." + g.Name()
	x.V.noteGlobal(x.inst, full, "write")
	if x.V.inRepo(g.Pkg.Pkg.Path()) {
		o := x.V.globalObj(st, x, g)
		st.mut(o).Val = v
		return
	}
	panic("unsupported:write of library global " + full)
}

// ---------------------------------------------------------------- maps

// Map states are Int-valued terms m with mdom(m,k) / mval(m,k); keys and values are boxed Ints.
func mdom(m, k *Term) *Term { return App("mdom", SBool, m, k) }
func mval(m, k *Term) *Term { return App("mval", SInt, m, k) }

func (x *Exec) doLookup(st *State, in *ssa.Lookup) Value {
	base := x.val(st, in.X)
	m, ok := base.(VMap)
	if !ok {
		if s, ok := base.(VStr); ok { // string indexing
			idx := x.intOf(x.val(st, in.Index))
			x.oblige(st, "safe", fmt.Sprintf("index-in-bounds@b%d", in.Block().Index), And(Le(IntC(0), idx), Lt(idx, Len(s.T))), "string index within length")
			return VInt{At(s.T, idx)}
		}
		panic("unsupported:lookup")
	}
	if m.Obj == nil {
		// nil map: reads yield zero values
		z := x.zeroValue(in.X.Type().Underlying().(*types.Map).Elem(), st)
		if in.CommaOk {
			return VTuple{z, VBool{False}}
		}
		return z
	}
	x.lockAccess(st, m.Obj, false, in)
	ms := st.get(m.Obj).MV
	k := x.box(st, x.val(st, in.Index))
	et := in.X.Type().Underlying().(*types.Map).Elem()
	raw := mval(ms, k)
	var v Value
	switch x.resolve(et).Underlying().(type) {
	case *types.Signature:
		v = VFunc{IsNil: Not(mdom(ms, k)), TagOf: App("clos_tag", SInt, raw)}
	case *types.Interface:
		v = VBox{Inner: VService{Alg: App("svc_alg", SSeq, raw)}, Type: nil, IsNil: Not(mdom(ms, k))}
	default:
		v = x.unbox(st, raw, et, "mapval")
	}
	if in.CommaOk {
		return VTuple{v, VBool{mdom(ms, k)}}
	}
	return v
}

func (x *Exec) doMapUpdate(st *State, in *ssa.MapUpdate) {
	m := x.val(st, in.Map).(VMap)
	x.mapWrite(st, m, x.val(st, in.Key), x.val(st, in.Value), false, in)
}

func (x *Exec) mapWrite(st *State, m VMap, key Value, val Value, del bool, in ssa.Instruction) {
	if m.Obj == nil {
		x.oblige(st, "safe", fmt.Sprintf("nil-map-write@b%d", blockIdx(in)), False, "assignment to entry in nil map")
		st.dead = true
		return
	}
	x.lockAccess(st, m.Obj, true, in)
	if strings.HasPrefix(m.Obj.Prov, "global:") {
		// updating or deleting an entry of a package-level map is a write to shared state
		x.V.noteGlobal(x.inst, "map "+strings.TrimPrefix(m.Obj.Prov, "global:"), "write")
	}
	c := st.mut(m.Obj)
	old := c.MV
	k := x.box(st, key)
	nm := FreshInt("mapstate")
	j := Var("k!m", SInt)
	if del {
		st.assume(Forall([]*Term{j}, And(Eq(mdom(nm, j), And(Neq(j, k), mdom(old, j))), Eq(mval(nm, j), mval(old, j))), mdom(nm, j), mval(nm, j)))
	} else {
		var bv *Term
		switch v := val.(type) {
		case VFunc:
			bv = FreshInt("closure")
			st.assume(Eq(App("clos_tag", SInt, bv), x.closureTag(st, v, in)))
		case VBox:
			bv = FreshInt("svc")
			if sv, ok := v.Inner.(VService); ok {
				st.assume(Eq(App("svc_alg", SSeq, bv), sv.Alg))
			} else if op, ok := v.Inner.(VOpaque); ok && op.T != nil {
				bv = op.T
			} else if p, ok := v.Inner.(VPtr); ok && p.Obj != nil {
				st.assume(Eq(App("svc_alg", SSeq, bv), x.V.algorithmOf(p.Obj.Type)))
			}
		default:
			bv = x.box(st, val)
		}
		st.assume(Forall([]*Term{j}, And(Eq(mdom(nm, j), Or(Eq(j, k), mdom(old, j))), Eq(mval(nm, j), Ite(Eq(j, k), bv, mval(old, j)))), mdom(nm, j), mval(nm, j)))
		x.V.noteMapUpdate(x, st, m.Obj, key, bv, val)
	}
	c.MV = nm
}

// closureTag summarises a registered factory closure: the tag of the fresh zero message it returns.
func (x *Exec) closureTag(st *State, fv VFunc, in ssa.Instruction) *Term {
	if fv.TagOf != nil {
		return fv.TagOf
	}
	if fv.Fn == nil {
		return FreshInt("tag?")
	}
	s2 := st.clone()
	sub := &Exec{V: x.V, fn: fv.Fn, sigma: x.sigma, run: x.run, inst: x.inst + "/" + fv.Fn.Name(), emitSafe: false, names: map[string]Value{}}
	sub.findLoops()
	s2.env = map[ssa.Value]Value{}
	for i, v := range fv.Fn.FreeVars {
		s2.env[v] = fv.Bindings[i]
	}
	var tag *Term
	n := 0
	sub.onReturn = func(s *State, res []Value) {
		n++
		if len(res) == 1 {
			switch r := res[0].(type) {
			case VIface:
				if r.Obj != nil && r.IsNil.IsFalse() {
					c := s.get(r.Obj)
					if Same(c.MV, zeroMV(c.Tag)) && r.Obj.Prov == "fresh" {
						tag = c.Tag
					}
				}
			case VPtr:
				if r.Obj != nil && r.Obj.Kind == "dyn" && r.IsNil.IsFalse() {
					c := s.get(r.Obj)
					if Same(c.MV, zeroMV(c.Tag)) && r.Obj.Prov == "fresh" {
						tag = c.Tag
					}
				}
			}
		}
	}
	if len(fv.Fn.Params) == 0 && len(fv.Fn.Blocks) > 0 {
		sub.execFrom(s2, fv.Fn.Blocks[0], nil)
	}
	if n != 1 || tag == nil || len(sub.obs) > 0 {
		return App("tag_not_a_fresh_zero_factory", SInt)
	}
	return tag
}
