package main

// Symbolic values, heap objects and path state of the verification-condition generator.

import (
	"fmt"
	"go/types"
	"math/big"
	"os"
	"strings"

	"golang.org/x/tools/go/ssa"
)

type Value interface{}

type VInt struct{ T *Term }   // integers (mathematical value), floats (bit pattern)
type VBool struct{ T *Term }  // booleans
type VStr struct{ T *Term }   // strings (Seq of bytes)
type VErr struct{ Nil *Term } // error values abstracted to nil / non-nil

// VSlice is a window [Lo,Hi) of an array object's content.
type VSlice struct {
	Arr    *Obj
	Lo, Hi *Term
	Cap    *Term
	IsNil  *Term
	Epoch  int // buffer epoch at creation when Arr is a buffer view
	Elem   types.Type
}

// VPtr points to a whole object (cell, struct, array, buffer, dyn, mutex ...).
type VPtr struct {
	Obj   *Obj
	IsNil *Term
}

// VFieldPtr points to field Idx of a struct object; VElemPtr to element Idx of an array object.
type VFieldPtr struct {
	Obj *Obj
	Idx int
}
type VElemPtr struct {
	Arr   *Obj
	Idx   *Term
	Epoch int
}

// VIface is a BinaryCodec-like interface value holding a pointer to a message object.
type VIface struct {
	IsNil *Term
	Obj   *Obj
}

// VBox is any other interface value (any, io.Writer, ByteOrder, ...): the boxed value and its type.
type VBox struct {
	Inner Value
	Type  types.Type
	IsNil *Term
}

type VTuple []Value

// VFunc is a function value: a static function/closure, or an entry of a factory table.
type VFunc struct {
	Fn       *ssa.Function
	Bindings []Value
	Table    string // non-empty: the factory registered under Key in this table
	Key      *Term
	TagOf    *Term // summary: returns a fresh zero message with this tag
	IsNil    *Term
}

type VMap struct{ Obj *Obj }

// VOrder is encoding/binary.bigEndian / littleEndian.
type VOrder struct{ LE bool }

// VGlobal is the address of a package-level variable.
type VGlobal struct{ G *ssa.Global }

// VMoved is the value of a whole bytes.Buffer loaded from a temporary that has no other use.
type VMoved struct{ Obj *Obj }

// VOpaque stands for a value the model does not interpret.
type VOpaque struct {
	Why string
	T   *Term
}

type Obj struct {
	ID     int
	Kind   string // cell struct array buffer dyn map mutex opaque
	Type   types.Type
	Name   string
	Prov   string          // fresh | param:<n> | global:<n> | recv
	BornIn *ssa.BasicBlock // header of the innermost loop in whose body the object was allocated (nil: outside loops)
	Guard  *Obj            // the mutex object guarding this object (maps / fields living next to a mutex)
}

type Content struct {
	Val    Value         // cell
	Fields map[int]Value // struct
	Seq    *Term         // array / buffer unread bytes
	SeqVar *Term         // buffer: the variable that Seq (== SeqOf) was substituted for by normalizeBuffers
	SeqOf  *Term
	Epoch  int   // buffer modification epoch
	Tag    *Term // dyn: dynamic type tag
	MV     *Term // dyn: abstract message value
	Dom    *Term // map: name of domain function (as var-like app prefix)
	MapID  string
	Held   string // mutex: "none" "R" "W"
}

func (c *Content) clone() *Content {
	n := *c
	if c.Fields != nil {
		n.Fields = make(map[int]Value, len(c.Fields))
		for k, v := range c.Fields {
			n.Fields[k] = v
		}
	}
	return &n
}

type deferred struct {
	call *ssa.CallCommon
	args []Value
	fn   Value
}

type State struct {
	pc           []*Term
	env          map[ssa.Value]Value
	heap         map[*Obj]*Content
	alloc        *Term // ghost: bytes requested from the allocator so far
	defers       []deferred
	acq          int // lock acquisitions on this path
	dead         bool
	trace        []string
	entryOf      map[*ssa.BasicBlock]*State // loop header -> state snapshot on loop entry
	variant      map[*ssa.BasicBlock]*Term
	callOrd      map[string]int   // per callee short name: calls seen so far on this path
	lenv         map[string]Value // loop-carried names visible to contract expressions
	lenvOwner    *ssa.BasicBlock
	reslice      map[*ssa.Phi]VSlice // loop-carried slices the loop only narrows: their value at loop entry (immutable map, replaced on write)
	locals       map[string]Value    // source-level local variables (from ssa DebugRef)
	domain       []*Term             // message layer: callee ok-domains assumed on this path
	canon        []*Term             // message layer: round-trip domain collected on this path
	calls        []*CallRecord
	marks        []string
	written      map[string]bool // receiver fields stored to (objID.field)
	allocC       int64           // measured: sum of the constant parts of the allocation bounds on this path
	allocA       int64           // measured: largest per-byte coefficient on this path
	allocUnknown bool
	acqState     *Term // registry: guarded map state right after the lock was acquired
	relState     *Term // registry: guarded map state when the lock was released
}

func (s *State) clone() *State {
	n := &State{
		pc:           append([]*Term{}, s.pc...),
		env:          make(map[ssa.Value]Value, len(s.env)),
		heap:         make(map[*Obj]*Content, len(s.heap)),
		alloc:        s.alloc,
		defers:       append([]deferred{}, s.defers...),
		acq:          s.acq,
		trace:        append([]string{}, s.trace...),
		entryOf:      map[*ssa.BasicBlock]*State{},
		variant:      map[*ssa.BasicBlock]*Term{},
		callOrd:      map[string]int{},
		lenv:         s.lenv,
		lenvOwner:    s.lenvOwner,
		reslice:      s.reslice,
		locals:       s.locals,
		domain:       append([]*Term{}, s.domain...),
		canon:        append([]*Term{}, s.canon...),
		calls:        append([]*CallRecord{}, s.calls...),
		marks:        append([]string{}, s.marks...),
		written:      map[string]bool{},
		acqState:     s.acqState,
		allocC:       s.allocC,
		allocA:       s.allocA,
		allocUnknown: s.allocUnknown,
		relState:     s.relState,
	}
	for k, v := range s.env {
		n.env[k] = v
	}
	for k, v := range s.heap {
		n.heap[k] = v // copy-on-write: contents are cloned in (*State).mut
	}
	for k, v := range s.entryOf {
		n.entryOf[k] = v
	}
	for k, v := range s.variant {
		n.variant[k] = v
	}
	for k, v := range s.callOrd {
		n.callOrd[k] = v
	}
	for k, v := range s.written {
		n.written[k] = v
	}
	return n
}

func (s *State) setLocal(name string, v Value) {
	n := make(map[string]Value, len(s.locals)+1)
	for k, x := range s.locals {
		n[k] = x
	}
	n[name] = v
	s.locals = n
}

func (s *State) get(o *Obj) *Content {
	c := s.heap[o]
	if c == nil {
		c = &Content{}
		s.heap[o] = c
	}
	return c
}

// mut returns a private, mutable copy of the object's content.
func (s *State) mut(o *Obj) *Content {
	c := s.get(o).clone()
	s.heap[o] = c
	return c
}

func (s *State) assume(t *Term) {
	if t.IsTrue() {
		return
	}
	if t.Op == "app" && (t.Name == "extends" || t.Name == "suffixof") {
		// skolemise: introduce the unknown piece as a fresh symbol so that the structure stays visible
		a, b := t.Args[0], t.Args[1]
		j := FreshSeq("piece")
		s.assume(App("bytes", SBool, j))
		if t.Name == "extends" {
			s.pc = append(s.pc, Eq(a, Cat(b, j)))
		} else {
			s.pc = append(s.pc, Eq(b, Cat(j, a)))
		}
		return
	}
	if t.Op == "and" {
		for _, a := range t.Args {
			s.assume(a)
		}
		return
	}
	if t.Op == "=>" && s.allImplied(t.Args[0]) {
		s.assume(t.Args[1])
		return
	}
	s.pc = append(s.pc, t)
	if ovfObligations && t.Op == "app" && t.Name == "bytes" && len(t.Args) == 1 {
		// type invariant of Go: a byte sequence that exists at run time (slice, string, buffer content) has an int length
		s.pc = append(s.pc, Le(Len(t.Args[0]), BigC(maxInt64)))
	}
	if t.Op != "=>" {
		s.saturate()
	}
}

var ovfObligations = os.Getenv("VERIF_NO_OVF") == "" // 64-bit + - * carry a no-overflow obligation (safety runs)
var maxInt64 = new(big.Int).SetUint64(1<<63 - 1)

func (s *State) allImplied(h *Term) bool {
	if h.Op == "and" {
		for _, a := range h.Args {
			if !s.allImplied(a) {
				return false
			}
		}
		return true
	}
	return s.implied(h) == 1
}

// saturate applies modus ponens to implications of the path condition whose hypotheses have become facts.
func (s *State) saturate() {
	for changed := true; changed; {
		changed = false
		for i, p := range s.pc {
			if p.Op == "=>" && s.allImplied(p.Args[0]) {
				s.pc[i] = True
				changed = true
				s.assume(p.Args[1])
			} else if p.Op == "=>" && s.someRefuted(p.Args[1]) {
				// modus tollens: a behaviour whose conclusion is known to be false did not apply
				s.pc[i] = True
				changed = true
				s.assume(Not(p.Args[0]))
			}
		}
	}
}

func (s *State) someRefuted(c *Term) bool {
	if c.Op == "and" {
		for _, a := range c.Args {
			if s.someRefuted(a) {
				return true
			}
		}
		return false
	}
	return s.implied(c) == -1
}

// ---------------------------------------------------------------- types

type TypeInfo struct {
	Kind   string // int uint float bool string
	Width  int    // bytes
	Signed bool
}

type Subst map[*types.TypeParam]types.Type

func (x *Exec) resolve(t types.Type) types.Type {
	if len(x.sigma) == 0 || t == nil {
		return t
	}
	switch u := t.(type) {
	case *types.TypeParam:
		for k, v := range x.sigma {
			if k == u || (k.Obj().Name() == u.Obj().Name() && k.Obj().Pos() == u.Obj().Pos()) {
				return x.resolve(v)
			}
		}
		return t
	case *types.Slice:
		if e := x.resolve(u.Elem()); e != u.Elem() {
			return types.NewSlice(e)
		}
	case *types.Pointer:
		if e := x.resolve(u.Elem()); e != u.Elem() {
			return types.NewPointer(e)
		}
	case *types.Array:
		if e := x.resolve(u.Elem()); e != u.Elem() {
			return types.NewArray(e, u.Len())
		}
	case *types.Map:
		k, e := x.resolve(u.Key()), x.resolve(u.Elem())
		if k != u.Key() || e != u.Elem() {
			return types.NewMap(k, e)
		}
	}
	return t
}

func basicInfo(t types.Type) (TypeInfo, bool) {
	b, ok := t.Underlying().(*types.Basic)
	if !ok {
		return TypeInfo{}, false
	}
	switch b.Kind() {
	case types.Int8:
		return TypeInfo{"int", 1, true}, true
	case types.Int16:
		return TypeInfo{"int", 2, true}, true
	case types.Int32:
		return TypeInfo{"int", 4, true}, true
	case types.Int64, types.Int:
		return TypeInfo{"int", 8, true}, true
	case types.Uint8:
		return TypeInfo{"uint", 1, false}, true
	case types.Uint16:
		return TypeInfo{"uint", 2, false}, true
	case types.Uint32:
		return TypeInfo{"uint", 4, false}, true
	case types.Uint64, types.Uint, types.Uintptr:
		return TypeInfo{"uint", 8, false}, true
	case types.Float32:
		return TypeInfo{"float", 4, false}, true
	case types.Float64:
		return TypeInfo{"float", 8, false}, true
	case types.Bool, types.UntypedBool:
		return TypeInfo{"bool", 1, false}, true
	case types.String, types.UntypedString:
		return TypeInfo{"string", 0, false}, true
	case types.UntypedInt, types.UntypedRune:
		return TypeInfo{"int", 8, true}, true
	}
	return TypeInfo{}, false
}

func (ti TypeInfo) min() *Term {
	if ti.Signed {
		return BigC(new(big.Int).Neg(new(big.Int).Lsh(big.NewInt(1), uint(8*ti.Width-1))))
	}
	return IntC(0)
}
func (ti TypeInfo) max() *Term {
	if ti.Signed {
		return BigC(new(big.Int).Sub(new(big.Int).Lsh(big.NewInt(1), uint(8*ti.Width-1)), big.NewInt(1)))
	}
	return BigC(new(big.Int).Sub(new(big.Int).Lsh(big.NewInt(1), uint(8*ti.Width)), big.NewInt(1)))
}
func (ti TypeInfo) modulus() *Term { return Pow2(8 * ti.Width) }

func inRange(ti TypeInfo, t *Term) *Term { return And(Le(ti.min(), t), Le(t, ti.max())) }

// wrap reduces a mathematical integer to the representable range of ti (Go conversion / overflow semantics).
func wrap(ti TypeInfo, t *Term) *Term {
	if t.IsConst() {
		m := new(big.Int).Lsh(big.NewInt(1), uint(8*ti.Width))
		v := new(big.Int).Mod(t.Val, m)
		if ti.Signed && v.Cmp(new(big.Int).Rsh(m, 1)) >= 0 {
			v.Sub(v, m)
		}
		return BigC(v)
	}
	u := Mod(t, ti.modulus())
	if !ti.Signed {
		return u
	}
	half := Pow2(8*ti.Width - 1)
	return Ite(Ge(u, half), Sub(u, ti.modulus()), u)
}

// ubits maps a value of type ti to its unsigned bit pattern.
func ubits(ti TypeInfo, t *Term) *Term {
	if !ti.Signed {
		return t
	}
	return Mod(t, ti.modulus())
}

// fromBits maps an unsigned bit pattern to the value of type ti.
func fromBits(ti TypeInfo, u *Term) *Term {
	if !ti.Signed {
		return u
	}
	half := Pow2(8*ti.Width - 1)
	return Ite(Ge(u, half), Sub(u, ti.modulus()), u)
}

func typeSize(t types.Type) int64 {
	switch u := t.Underlying().(type) {
	case *types.Basic:
		if ti, ok := basicInfo(u); ok {
			if ti.Kind == "string" {
				return 16
			}
			return int64(ti.Width)
		}
	case *types.Pointer, *types.Map, *types.Chan, *types.Signature:
		return 8
	case *types.Interface:
		return 16
	case *types.Slice:
		return 24
	case *types.Struct:
		var n int64
		for i := 0; i < u.NumFields(); i++ {
			n += (typeSize(u.Field(i).Type()) + 7) / 8 * 8
		}
		return n
	case *types.Array:
		return u.Len() * typeSize(u.Elem())
	}
	return 8
}

// ---------------------------------------------------------------- naming / fresh symbols

var freshCounter int

func freshName(prefix string) string {
	freshCounter++
	prefix = strings.Map(func(r rune) rune {
		if r == ' ' || r == '|' || r == '(' || r == ')' {
			return '_'
		}
		return r
	}, prefix)
	return fmt.Sprintf("%s!%d", prefix, freshCounter)
}

func FreshInt(p string) *Term  { return Var(freshName(p), SInt) }
func FreshBool(p string) *Term { return Var(freshName(p), SBool) }
func FreshSeq(p string) *Term  { return Var(freshName(p), SSeq) }

var objCounter int

func newObj(kind string, t types.Type, name, prov string) *Obj {
	objCounter++
	return &Obj{ID: objCounter, Kind: kind, Type: t, Name: name, Prov: prov}
}

func isBytesBuffer(t types.Type) bool {
	if p, ok := t.(*types.Pointer); ok {
		t = p.Elem()
	}
	n, ok := t.(*types.Named)
	return ok && n.Obj().Pkg() != nil && n.Obj().Pkg().Path() == "bytes" && n.Obj().Name() == "Buffer"
}

func namedOf(t types.Type) *types.Named {
	if p, ok := t.(*types.Pointer); ok {
		t = p.Elem()
	}
	n, _ := t.(*types.Named)
	return n
}

func isErrorType(t types.Type) bool {
	n, ok := t.(*types.Named)
	return ok && n.Obj().Pkg() == nil && n.Obj().Name() == "error"
}

// hasCodecMethods reports whether *T has Encode(*bytes.Buffer) and Decode(*bytes.Buffer) methods.
func hasCodecMethods(t types.Type) bool {
	n := namedOf(t)
	if n == nil {
		return false
	}
	if _, isStruct := n.Underlying().(*types.Struct); !isStruct {
		return false
	}
	ms := types.NewMethodSet(types.NewPointer(n))
	enc, dec := ms.Lookup(n.Obj().Pkg(), "Encode"), ms.Lookup(n.Obj().Pkg(), "Decode")
	return enc != nil && dec != nil
}

func isCodecInterface(t types.Type) bool {
	it, ok := t.Underlying().(*types.Interface)
	if !ok {
		return false
	}
	var e, d bool
	for i := 0; i < it.NumMethods(); i++ {
		switch it.Method(i).Name() {
		case "Encode":
			e = true
		case "Decode":
			d = true
		}
	}
	return e && d
}

// tagOf returns the type-tag constant of a message type (a named struct with codec methods).
func tagOf(t types.Type) *Term {
	n := namedOf(t)
	if n == nil {
		return FreshInt("tag?")
	}
	return App("tag_"+n.Obj().Pkg().Name()+"."+n.Obj().Name(), SInt)
}

func zeroMV(tag *Term) *Term { return App("zeromv", SInt, tag) }
