package main

// Pinned layouts and tables: printing extracted formats as contract expressions (bootstrap),
// comparing the format extracted from the current code with the pinned one (C02), byte order
// per protocol (C03), frame length / checksum (C04, C05), discriminator tables (C12).

import (
	"fmt"
	"go/types"
	"math/big"
	"os"
	"path/filepath"
	"sort"
	"strings"
)

// ---------------------------------------------------------------- printing terms as contract expressions

type termPrinter struct {
	vars map[string]string // symbolic variable -> expression over field names
	V    *Verifier
}

func (V *Verifier) fieldPrinter(enc *EncInfo) *termPrinter {
	tp := &termPrinter{vars: map[string]string{}, V: V}
	mt := enc.T
	for i := 0; i < mt.Struct.NumFields(); i++ {
		name := mt.Struct.Field(i).Name()
		v, ok := enc.Fields[i]
		if !ok {
			v = enc.Init.get(enc.Recv).Fields[i]
		}
		switch fv := v.(type) {
		case VInt:
			tp.vars[fv.T.Name] = name
		case VBool:
			tp.vars[fv.T.Name] = name
		case VStr:
			tp.vars[fv.T.Name] = name
		case VSlice:
			if c := enc.Init.get(fv.Arr).Seq; c != nil && c.Op == "var" {
				tp.vars[c.Name] = name
			}
		case VPtr, VIface:
			if o, isnil := dynOf(fv); o != nil {
				c := enc.Init.get(o)
				if c.Tag.Op == "var" {
					tp.vars[c.Tag.Name] = name + ".tag"
				}
				if c.MV.Op == "var" {
					tp.vars[c.MV.Name] = name + ".mv"
				}
				if isnil != nil && isnil.Op == "var" {
					tp.vars[isnil.Name] = name + " == nil"
				}
			}
		}
	}
	return tp
}

var pow2Names = map[string]string{}

func init() {
	for _, n := range []int{8, 16, 32, 64} {
		pow2Names[new(big.Int).Lsh(big.NewInt(1), uint(n)).String()] = fmt.Sprintf("pow2(%d)", n)
	}
}

func ordName(t *Term) string {
	if t.IsConst() {
		if t.Val.Sign() == 0 {
			return "BE"
		}
		return "LE"
	}
	return "?"
}

func (tp *termPrinter) print(t *Term) string {
	if s, ok := tp.V.tblTerms[t.Key()]; ok {
		return s.render(tp)
	}
	switch t.Op {
	case "const":
		if n, ok := pow2Names[t.Val.String()]; ok {
			return n
		}
		return t.Val.String()
	case "var":
		if s, ok := tp.vars[t.Name]; ok {
			return s
		}
		return "?" + t.Name
	case "true", "false":
		return t.Op
	case "+":
		var ps []string
		for _, a := range t.Args {
			ps = append(ps, tp.print(a))
		}
		return "(" + strings.Join(ps, " + ") + ")"
	case "*":
		return "(" + tp.print(t.Args[0]) + " * " + tp.print(t.Args[1]) + ")"
	case "mod":
		return "(" + tp.print(t.Args[0]) + " % " + tp.print(t.Args[1]) + ")"
	case "div":
		return "(" + tp.print(t.Args[0]) + " / " + tp.print(t.Args[1]) + ")"
	case "ite":
		return "ite(" + tp.print(t.Args[0]) + ", " + tp.print(t.Args[1]) + ", " + tp.print(t.Args[2]) + ")"
	case "=":
		return "(" + tp.print(t.Args[0]) + " == " + tp.print(t.Args[1]) + ")"
	case "<":
		return "(" + tp.print(t.Args[0]) + " < " + tp.print(t.Args[1]) + ")"
	case "<=":
		return "(" + tp.print(t.Args[0]) + " <= " + tp.print(t.Args[1]) + ")"
	case "not":
		return "!(" + tp.print(t.Args[0]) + ")"
	case "app":
		switch t.Name {
		case "cat":
			var ps []string
			for _, s := range Segs(t) {
				ps = append(ps, tp.print(s))
			}
			return "(" + strings.Join(ps, " ++ ") + ")"
		case "empty":
			return "ε"
		case "enc":
			return "encw(" + ordName(t.Args[0]) + ", " + tp.print(t.Args[1]) + ", " + tp.print(t.Args[2]) + ")"
		case "k_enc", "k_encs", "k_pstr":
			return t.Name + "(" + ordName(t.Args[0]) + ", " + tp.print(t.Args[1]) + ")"
		case "fixed":
			side := "R"
			if t.Args[3].IsConst() && t.Args[3].Val.Sign() != 0 {
				side = "L"
			}
			return "fixed(" + tp.print(t.Args[0]) + ", " + tp.print(t.Args[1]) + ", " + tp.print(t.Args[2]) + ", " + side + ")"
		case "k_fix":
			side := "R"
			if t.Args[2].IsConst() && t.Args[2].Val.Sign() != 0 {
				side = "L"
			}
			return "k_fix(" + tp.print(t.Args[0]) + ", " + tp.print(t.Args[1]) + ", " + side + ")"
		}
		if strings.HasPrefix(t.Name, "tag_") && len(t.Args) == 0 {
			n := strings.TrimPrefix(t.Name, "tag_")
			if i := strings.IndexByte(n, '.'); i >= 0 {
				n = n[i+1:]
			}
			return "tag(" + n + ")"
		}
		var ps []string
		for _, a := range t.Args {
			ps = append(ps, tp.print(a))
		}
		return t.Name + "(" + strings.Join(ps, ", ") + ")"
	}
	return "?" + t.Key()
}

// tblRef remembers that a term was produced by a discriminator table look-up, so that it prints as tbl(table, key).
type tblRef struct {
	table string
	key   *Term
	what  string // "tag" or "dom"
}

func (r tblRef) render(tp *termPrinter) string {
	if r.what == "dom" {
		return "tbldom(" + r.table + ", " + tp.print(r.key) + ")"
	}
	return "tbl(" + r.table + ", " + tp.print(r.key) + ")"
}

// pathKey names an Encode path by the nil-ness of the parts it branched on.
func (V *Verifier) pathKey(enc *EncInfo, p *EncPath) string {
	tp := V.fieldPrinter(enc)
	var ks []string
	seen := map[string]bool{}
	for _, c := range p.Cond {
		var s string
		if c.Op == "var" {
			if n, ok := tp.vars[c.Name]; ok && strings.HasSuffix(n, "== nil") {
				s = n
			}
		} else if c.Op == "not" && c.Args[0].Op == "var" {
			if n, ok := tp.vars[c.Args[0].Name]; ok && strings.HasSuffix(n, "== nil") {
				s = strings.Replace(n, "==", "!=", 1)
			}
		}
		if s != "" && !seen[s] {
			seen[s] = true
			ks = append(ks, s)
		}
	}
	sort.Strings(ks)
	if len(ks) == 0 {
		return "always"
	}
	return strings.Join(ks, " && ")
}

type postField struct {
	Name string
	T    *Term
}

// changedFields lists the receiver fields Encode writes back (self-computed length / checksum).
func (V *Verifier) changedFields(enc *EncInfo, p *EncPath) []postField {
	var out []postField
	mt := enc.T
	for i := 0; i < mt.Struct.NumFields(); i++ {
		before, ok1 := enc.Fields[i].(VInt)
		after, ok2 := p.Post[i].(VInt)
		if ok1 && ok2 && !Same(before.T, after.T) {
			out = append(out, postField{mt.Struct.Field(i).Name(), after.T})
		}
	}
	return out
}

// ---------------------------------------------------------------- bootstrap

var frameInfo = map[string]string{
	"sse_bin.SseBinary":     "frame len=MsgBodyLen body=Body cksum=Checksum alg=bsum256",
	"szse_bin.SzseBinary":   "frame len=BodyLength body=Body cksum=Checksum alg=bsum256",
	"risk_bin.RcBinary":     "frame len=MsgBodyLen body=Body",
	"sample_bin.RootPacket": "frame len=PayloadLen body=Payload cksum=Checksum alg=crc32",
}

// hand-written example types of the sample package: a self-contained big-endian format
var handWritten = map[string]string{"sample_bin.RiskControlRequest": "BE", "sample_bin.SubOrder": "BE"}

var protoOrder = map[string]string{"sse_bin": "BE", "szse_bin": "BE", "risk_bin": "BE", "bjse_trade_bin": "LE", "sample_bin": "LE"}
var protoName = map[string]string{"sse_bin": "sse_bin_v0.57", "szse_bin": "szse_bin_v1.29", "risk_bin": "risk_v0.1.0", "bjse_trade_bin": "bjse_trade_bin_v0.9", "sample_bin": "sample"}

func (V *Verifier) Bootstrap(outDir string) error {
	V.tableMode = "extracted"
	byPkg := map[string][]*MsgType{}
	for _, mt := range V.messageTypes() {
		byPkg[mt.Pkg.Pkg.Path()] = append(byPkg[mt.Pkg.Pkg.Path()], mt)
	}
	var paths []string
	for p := range byPkg {
		paths = append(paths, p)
	}
	sort.Strings(paths)
	for _, path := range paths {
		pkgName := V.pkgs[path].Pkg.Name()
		var b strings.Builder
		fmt.Fprintf(&b, "//go:build verif\n\n// Pinned wire layouts and discriminator tables of package %s for the gocv verifier (/verif).\n// Comments only. Each layout lists, per Encode path, the byte segments written (as contract\n// expressions over the field names) and the fields the encoder writes back; it was produced by\n// `gocv bootstrap` from the pinned tree and is from then on the specification the code is checked\n// against (DESIGN.md 6.2). A byte-identical mirror is kept under /verif/contracts/mirror.\n\npackage %s\n\n", pkgName, pkgName)
		_, tabs := V.ExtractTables(path)
		for k, v := range tabs {
			V.extracted[k] = v
		}
		var tnames []string
		for k := range tabs {
			tnames = append(tnames, k)
		}
		sort.Strings(tnames)
		for _, tn := range tnames {
			et := tabs[tn]
			short := tn[strings.LastIndexByte(tn, '.')+1:]
			kt := "int"
			if len(et.Entries) > 0 && et.Entries[0].Key.Sort == SSeq {
				kt = "string"
			}
			fmt.Fprintf(&b, "//@ table %s : %s\n", short, kt)
			for _, e := range et.Entries {
				ks := e.Key.Key()
				if e.Key.Sort == SSeq {
					s, _ := termString(e.Key)
					ks = fmt.Sprintf("%q", s)
				}
				tg := strings.TrimPrefix(e.Tag.Name, "tag_"+pkgName+".")
				fmt.Fprintf(&b, "//@   %s->%s\n", ks, tg)
			}
			b.WriteString("\n")
		}
		for _, mt := range byPkg[path] {
			enc := V.EncodeOK(mt, nil)
			tp := V.fieldPrinter(enc)
			hdr := fmt.Sprintf("proto %s, %s", protoName[pkgName], protoOrder[pkgName])
			if o, ok := handWritten[mt.Name]; ok {
				hdr = fmt.Sprintf("proto %s, %s", "sample_handwritten", o)
			}
			if fi, ok := frameInfo[mt.Name]; ok {
				hdr += ", " + fi
			}
			fmt.Fprintf(&b, "//@ layout %s [%s]\n", mt.Named.Obj().Name(), hdr)
			fills := V.scoutFills(mt)
			for _, d := range V.scoutDyns(mt) {
				w := ""
				if fills[d.Table] {
					w = " fills"
				}
				fmt.Fprintf(&b, "//@   dyn %s by %s in %s%s\n", d.Field, d.Key, d.Table, w)
			}
			for _, p := range enc.Paths {
				fmt.Fprintf(&b, "//@   path %s\n", V.pathKey(enc, p))
				for _, s := range p.Segs {
					fmt.Fprintf(&b, "//@     seg %s\n", tp.print(s))
				}
				for _, pf := range V.changedFields(enc, p) {
					fmt.Fprintf(&b, "//@     post %s == %s\n", pf.Name, tp.print(pf.T))
				}
			}
			b.WriteString("\n")
		}
		rel := strings.TrimPrefix(path, modPath+"/")
		dst := filepath.Join(outDir, rel, "zz_contracts_verif.go")
		os.MkdirAll(filepath.Dir(dst), 0o755)
		if err := os.WriteFile(dst, []byte(b.String()), 0o644); err != nil {
			return err
		}
	}
	return nil
}

// ---------------------------------------------------------------- checking against the pinned layout

func (V *Verifier) layoutFor(mt *MsgType) *Layout {
	cf := V.files[mt.Pkg.Pkg.Path()]
	if cf == nil {
		return nil
	}
	return cf.Layouts[mt.Named.Obj().Name()]
}

// layoutEval evaluates a pinned segment expression over the field values of the current receiver.
func (V *Verifier) layoutEval(enc *EncInfo) *evaluator {
	x := &Exec{V: V, names: map[string]Value{}, ghosts: map[string]*Term{}, holes: map[string]string{}, sigma: Subst{}, isCallee: true}
	for i := 0; i < enc.T.Struct.NumFields(); i++ {
		if v, ok := enc.Fields[i]; ok {
			x.names[enc.T.Struct.Field(i).Name()] = v
		} else if v, ok := enc.Init.get(enc.Recv).Fields[i]; ok {
			x.names[enc.T.Struct.Field(i).Name()] = v
		}
	}
	x.pkgForTags = enc.T.Pkg
	ev := x.evaluator(enc.Init)
	return ev
}

func mkOb(name string, props []string, goal *Term, hyps []*Term, detail, fn string) *Obligation {
	return &Obligation{Name: name, Props: props, Func: fn, Kind: "layout", Goal: wrapSeqEq(goal), Hyps: hyps, Detail: detail}
}

// CheckLayout compares the extracted format with the pinned layout, segment by segment (C02).
func (V *Verifier) CheckLayout(mt *MsgType, enc *EncInfo, props []string) []*Obligation {
	var out []*Obligation
	base := mt.Name + "/layout"
	ly := V.layoutFor(mt)
	if ly == nil {
		return []*Obligation{mkOb(base+"/present", props, False, nil, "every message type has a pinned layout", mt.Name)}
	}
	ev := V.layoutEval(enc)
	used := map[string]bool{}
	for _, p := range enc.Paths {
		key := V.pathKey(enc, p)
		var lp *LayoutPath
		for _, c := range ly.Paths {
			if c.Key == key {
				lp = c
			}
		}
		if lp == nil {
			out = append(out, mkOb(fmt.Sprintf("%s/path(%s)/pinned", base, key), props, False, nil, "the code has an encode path the pinned layout does not have", mt.Name))
			continue
		}
		used[key] = true
		hyps := append([]*Term{}, p.PostSt.pc...)
		out = append(out, mkOb(fmt.Sprintf("%s/path(%s)/segment-count", base, key), props, BoolC(len(lp.Segs) == len(p.Segs)), nil,
			fmt.Sprintf("pinned layout has %d segments, the code writes %d", len(lp.Segs), len(p.Segs)), mt.Name))
		tp := V.fieldPrinter(enc)
		for k := 0; k < len(lp.Segs) && k < len(p.Segs); k++ {
			want, err := ev.term(lp.Segs[k])
			if err != nil {
				out = append(out, mkOb(fmt.Sprintf("%s/path(%s)/seg#%d", base, key, k+1), props, False, nil, "pinned segment not evaluable: "+err.Error(), mt.Name))
				continue
			}
			o := mkOb(fmt.Sprintf("%s/path(%s)/seg#%d", base, key, k+1), props, Eq(p.Segs[k], want), hyps,
				"pinned: "+lp.Segs[k].String()+"   code: "+tp.print(p.Segs[k]), mt.Name)
			out = append(out, o)
		}
		ch := V.changedFields(enc, p)
		out = append(out, mkOb(fmt.Sprintf("%s/path(%s)/written-back-fields", base, key), props, BoolC(len(ch) == len(lp.Posts)), nil,
			fmt.Sprintf("pinned layout lists %d fields written back, the code writes back %d", len(lp.Posts), len(ch)), mt.Name))
		for _, pe := range lp.Posts {
			t, err := ev.boolTermPost(pe, enc, p)
			if err != nil {
				out = append(out, mkOb(fmt.Sprintf("%s/path(%s)/post(%s)", base, key, pe.String()), props, False, nil, "not evaluable: "+err.Error(), mt.Name))
				continue
			}
			out = append(out, mkOb(fmt.Sprintf("%s/path(%s)/post(%s)", base, key, shortExpr(pe)), props, t, hyps, "field written back by Encode: "+pe.String(), mt.Name))
		}
	}
	for _, c := range ly.Paths {
		if !used[c.Key] {
			out = append(out, mkOb(fmt.Sprintf("%s/path(%s)/present-in-code", base, c.Key), props, False, nil, "the pinned layout has an encode path the code no longer has", mt.Name))
		}
	}
	return out
}

func shortExpr(e *Expr) string {
	s := e.String()
	if i := strings.Index(s, " == "); i >= 0 {
		return s[:i]
	}
	if len(s) > 40 {
		return s[:40]
	}
	return s
}

// boolTermPost evaluates "Field == expr" with Field read in the post-state and expr over the pre-state fields.
func (ev *evaluator) boolTermPost(e *Expr, enc *EncInfo, p *EncPath) (*Term, error) {
	if e.Kind != "bin" || e.Name != "==" || e.Args[0].Kind != "ident" {
		return nil, ev.err("post clause must have the form Field == expr")
	}
	rhs, err := ev.term(e.Args[1])
	if err != nil {
		return nil, err
	}
	for i := 0; i < enc.T.Struct.NumFields(); i++ {
		if enc.T.Struct.Field(i).Name() == e.Args[0].Name {
			if v, ok := p.Post[i].(VInt); ok {
				return Eq(v.T, rhs), nil
			}
		}
	}
	return nil, ev.err("unknown field %s", e.Args[0].Name)
}

// ---------------------------------------------------------------- C03: one byte order per protocol

// handRolledByte finds a byte of the output that is computed by dividing (shifting) a non-constant value.
func handRolledByte(t *Term) *Term {
	var hasDiv func(t *Term) bool
	hasDiv = func(t *Term) bool {
		if t.Op == "div" && !t.IsConst() {
			return true
		}
		for _, a := range t.Args {
			if hasDiv(a) {
				return true
			}
		}
		return false
	}
	if t.Op == "app" && t.Name == "unit" && len(t.Args) == 1 && hasDiv(t.Args[0]) {
		return t
	}
	if t.Op == "app" && (t.Name == "Wd" || t.Name == "flat") {
		return nil
	}
	for _, a := range t.Args {
		if u := handRolledByte(a); u != nil {
			return u
		}
	}
	return nil
}

func collectOrders(t *Term, out *[]*Term) {
	if t.Op == "app" {
		switch t.Name {
		case "enc", "k_enc", "k_encs", "k_pstr", "dec":
			if !(t.Args[1].IsConst() && t.Args[1].Val.Cmp(big.NewInt(1)) == 0) {
				*out = append(*out, t)
			}
		}
	}
	for _, a := range t.Args {
		collectOrders(a, out)
	}
}

func (V *Verifier) CheckOrders(mt *MsgType, enc *EncInfo, props []string) []*Obligation {
	var out []*Obligation
	pkgName := mt.Pkg.Pkg.Name()
	ord, ok := protoOrder[pkgName]
	if ly := V.layoutFor(mt); ly != nil && ly.Order != "" {
		ord, ok = ly.Order, true
	}
	if !ok {
		return []*Obligation{mkOb(mt.Name+"/byteorder/protocol-known", props, False, nil, "byte order of the protocol is pinned", mt.Name)}
	}
	want := IntC(0)
	if ord == "LE" {
		want = IntC(1)
	}
	tp := V.fieldPrinter(enc)
	for _, p := range enc.Paths {
		key := V.pathKey(enc, p)
		for k, s := range p.Segs {
			var os []*Term
			collectOrders(s, &os)
			for j, o := range os {
				out = append(out, mkOb(fmt.Sprintf("%s/byteorder/path(%s)/seg#%d.%d", mt.Name, key, k+1, j+1), props, Eq(o.Args[0], want), nil,
					fmt.Sprintf("every multi-byte integer of a %s protocol message is %s: %s", ord, ord, tp.print(o)), mt.Name))
			}
			// a single byte computed by shifting a wider value is a hand-rolled integer encoding: its byte order
			// cannot be read off a library call, so it is not accepted as being in the protocol's order
			if u := handRolledByte(s); u != nil {
				out = append(out, mkOb(fmt.Sprintf("%s/byteorder/path(%s)/seg#%d/hand-rolled-integer-bytes", mt.Name, key, k+1), props, False, nil,
					fmt.Sprintf("every multi-byte integer of a %s protocol message is written by an encoder of known byte order; this byte is computed by shifting: %s", ord, tp.print(u)), mt.Name))
			}
		}
	}
	if len(out) == 0 {
		out = append(out, mkOb(mt.Name+"/byteorder/no-multibyte-integers", props, True, nil, "the message has no multi-byte integer", mt.Name))
	}
	return out
}

// ---------------------------------------------------------------- C04 / C05: frames

func parseFrame(hdr map[string]string) (lenF, bodyF, ckF, alg string) {
	return hdr["len"], hdr["body"], hdr["cksum"], hdr["alg"]
}

func (V *Verifier) CheckFrame(mt *MsgType, enc *EncInfo, what string, props []string) []*Obligation {
	var out []*Obligation
	ly := V.layoutFor(mt)
	if ly == nil || !ly.Frame {
		return nil
	}
	lenF, bodyF, ckF, alg := parseFrame(ly.FrameInfo)
	fieldIdx := func(name string) int {
		for i := 0; i < mt.Struct.NumFields(); i++ {
			if mt.Struct.Field(i).Name() == name {
				return i
			}
		}
		return -1
	}
	bi, li, ci := fieldIdx(bodyF), fieldIdx(lenF), fieldIdx(ckF)
	if bi < 0 || li < 0 {
		return []*Obligation{mkOb(mt.Name+"/frame/fields", props, False, nil, "frame annotation names existing fields", mt.Name)}
	}
	pkgName := mt.Pkg.Pkg.Name()
	ord := IntC(0)
	if protoOrder[pkgName] == "LE" {
		ord = IntC(1)
	}
	for _, p := range enc.Paths {
		key := V.pathKey(enc, p)
		hyps := append([]*Term{}, p.PostSt.pc...)
		base := fmt.Sprintf("%s/frame/path(%s)", mt.Name, key)
		// locate the body bytes
		bo, bnil := dynOf(enc.Fields[bi])
		var body *Term = Empty
		bodyIdx := -1
		nilPath := bnil != nil && p.PostSt.implied(bnil) == 1
		if !nilPath {
			c := enc.Init.get(bo)
			body = App("Wd", SSeq, c.Tag, c.MV)
			for k, s := range p.Segs {
				if Same(s, body) {
					bodyIdx = k
				}
			}
			if bodyIdx < 0 {
				out = append(out, mkOb(base+"/body-present", props, False, hyps, "the body's bytes appear in the frame", mt.Name))
				continue
			}
		} else {
			bodyIdx = len(p.Segs)
			if ci >= 0 {
				bodyIdx = len(p.Segs) - 1
			}
		}
		lenIdx := bodyIdx - 1
		if lenIdx < 0 || lenIdx >= len(p.Segs) {
			out = append(out, mkOb(base+"/length-field-present", props, False, hyps, "a length field precedes the body", mt.Name))
			continue
		}
		blen := Len(body)
		fits := Lt(blen, Pow2(32))
		h2 := append(append([]*Term{}, hyps...), fits)
		if what == "C04" {
			out = append(out, mkOb(base+"/length-on-wire", props, Eq(p.Segs[lenIdx], App("enc", SSeq, ord, IntC(4), blen)), h2,
				"the length field on the wire is the exact number of body bytes that follow (body < 4 GiB)", mt.Name))
			if v, ok := p.Post[li].(VInt); ok {
				out = append(out, mkOb(base+"/length-in-object", props, Eq(v.T, blen), h2, "after encoding the message object reports the same length", mt.Name))
			}
			// nothing but the body lies between the length field and the trailer
			trailer := len(p.Segs) - bodyIdx
			if !nilPath {
				trailer--
			}
			wantTrailer := 0
			if ci >= 0 {
				wantTrailer = 1
			}
			out = append(out, mkOb(base+"/body-is-last-before-trailer", props, BoolC(trailer == wantTrailer), nil, "exactly the body lies between the length field and the trailer", mt.Name))
		}
		if what == "C05" && ci >= 0 {
			n := len(p.Segs)
			frame := Cat(p.Segs[:n-1]...)
			var ck *Term
			ti, _ := basicInfo(mt.Struct.Field(ci).Type())
			switch alg {
			case "bsum256":
				ck = Mod(App("bsum", SInt, frame, Len(frame)), IntC(256))
			case "crc32":
				ck = App("crc32_ieee", SInt, frame)
			default:
				out = append(out, mkOb(base+"/algorithm-known", props, False, nil, "checksum algorithm of the frame is pinned", mt.Name))
				continue
			}
			out = append(out, mkOb(base+"/checksum-on-wire", props, Eq(p.Segs[n-1], App("enc", SSeq, ord, IntC(4), ubits(ti, ck))), h2,
				"the trailer is the exchange algorithm applied to this frame's bytes from its first header byte through its last body byte", mt.Name))
			if v, ok := p.Post[ci].(VInt); ok {
				out = append(out, mkOb(base+"/checksum-in-object", props, Eq(v.T, ck), h2, "after encoding the message object reports the same checksum", mt.Name))
			}
			// the checksummed bytes do not include anything that was in the buffer before
			out = append(out, mkOb(base+"/checksum-excludes-prior-bytes", props, BoolC(!mentions(p.Segs[n-1], enc.U0.Name)), nil, "the checksum does not depend on bytes already in the buffer", mt.Name))
		}
	}
	return out
}

// ---------------------------------------------------------------- C12: tables

func (V *Verifier) CheckTables(pkgPath string, props []string) []*Obligation {
	obs, tabs := V.ExtractTables(pkgPath)
	pkgName := V.pkgs[pkgPath].Pkg.Name()
	for k, v := range tabs {
		V.extracted[k] = v
	}
	cf := V.files[pkgPath]
	names := map[string]bool{}
	for k := range tabs {
		names[k[strings.LastIndexByte(k, '.')+1:]] = true
	}
	if cf != nil {
		for n := range cf.Tables {
			names[n] = true
		}
	}
	var ns []string
	for n := range names {
		ns = append(ns, n)
	}
	sort.Strings(ns)
	for _, n := range ns {
		base := pkgName + ".init/table(" + n + ")"
		et := tabs[pkgPath+"."+n]
		var pt *Table
		if cf != nil {
			pt = cf.Tables[n]
		}
		if pt == nil {
			obs = append(obs, mkOb(base+"/pinned", props, False, nil, "the code fills a discriminator table the contract does not pin", pkgName))
			continue
		}
		if et == nil {
			obs = append(obs, mkOb(base+"/filled-by-init", props, False, nil, "a pinned discriminator table is not filled by init()", pkgName))
			continue
		}
		for _, b := range et.Bad {
			obs = append(obs, mkOb(base+"/constant-keys", props, False, nil, b, pkgName))
		}
		got := map[string]*Term{}
		for _, e := range et.Entries {
			got[e.Key.Key()] = e.Tag
		}
		want := map[string]bool{}
		for _, e := range pt.Entries {
			k := keyTerm(pt.KeyType, e[0])
			want[k.Key()] = true
			tg, ok := got[k.Key()]
			if !ok {
				obs = append(obs, mkOb(fmt.Sprintf("%s/key(%s)", base, e[0]), props, False, nil, "pinned key is registered", pkgName))
				continue
			}
			obs = append(obs, mkOb(fmt.Sprintf("%s/key(%s)", base, e[0]), props, Eq(tg, App("tag_"+pkgName+"."+e[1], SInt)), nil,
				fmt.Sprintf("key %s builds a fresh zero %s (code: %s)", e[0], e[1], tg.Key()), pkgName))
		}
		extra := 0
		for _, e := range et.Entries {
			if !want[e.Key.Key()] {
				extra++
				obs = append(obs, mkOb(fmt.Sprintf("%s/no-other-key(%s)", base, e.Key.Key()), props, False, nil, "the code registers a key the pinned table does not have", pkgName))
			}
		}
		if extra == 0 {
			obs = append(obs, mkOb(base+"/no-other-key", props, True, nil, "init registers no key beyond the pinned ones", pkgName))
		}
	}
	return obs
}

var _ = types.Typ
