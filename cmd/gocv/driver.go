package main

import (
	"flag"
	"fmt"
	"go/types"
	"os"
	"path/filepath"
	"sort"
	"strings"
	"time"

	"golang.org/x/tools/go/ssa"
)

func envOr(k, d string) string {
	if v := os.Getenv(k); v != "" {
		return v
	}
	return d
}

var basicByName = map[string]types.Type{
	"int8": types.Typ[types.Int8], "int16": types.Typ[types.Int16], "int32": types.Typ[types.Int32], "int64": types.Typ[types.Int64],
	"uint8": types.Typ[types.Uint8], "uint16": types.Typ[types.Uint16], "uint32": types.Typ[types.Uint32], "uint64": types.Typ[types.Uint64],
	"float32": types.Typ[types.Float32], "float64": types.Typ[types.Float64], "byte": types.Typ[types.Uint8],
}

func (V *Verifier) target(pkgPath, short string, targs []types.Type) (FuncTarget, error) {
	fn := V.lookupFunc(pkgPath, short)
	if fn == nil {
		return FuncTarget{}, fmt.Errorf("function %s.%s not found", pkgPath, short)
	}
	fc := V.contractFor(pkgPath, short)
	if fc == nil {
		return FuncTarget{}, fmt.Errorf("no contract for %s.%s", pkgPath, short)
	}
	sigma := Subst{}
	if fn.TypeParams() != nil {
		for i := 0; i < fn.TypeParams().Len() && i < len(targs); i++ {
			sigma[fn.TypeParams().At(i)] = targs[i]
		}
	}
	return FuncTarget{Fn: fn, FC: fc, Sigma: sigma, Inst: instName(V.pkgs[pkgPath], short, fn, sigma)}, nil
}

func scratchDir() string {
	d := filepath.Join(os.TempDir(), fmt.Sprintf("gocv-%d", os.Getpid()))
	os.MkdirAll(d, 0o755)
	return d
}

func dispatch(cmd string, args []string) int {
	switch cmd {
	case "dev":
		return cmdDev(args)
	case "check":
		return cmdCheck(args)
	case "msg":
		return cmdMsg(args)
	case "replay":
		return cmdReplay(args)
	case "harness":
		return cmdHarness(args)
	case "bootstrap":
		V, err := LoadVerifier(envOr("VERIF_REPO", "/repo"), envOr("VERIF_DIR", "/verif"))
		if err != nil {
			fmt.Fprintln(os.Stderr, err)
			return 2
		}
		loadPrelude(envOr("VERIF_DIR", "/verif"))
		if err := V.Bootstrap(args[0]); err != nil {
			fmt.Fprintln(os.Stderr, err)
			return 2
		}
		return 0
	}
	fmt.Fprintln(os.Stderr, "unknown command", cmd)
	return 2
}

func cmdDev(args []string) int {
	fs := flag.NewFlagSet("dev", flag.ExitOnError)
	pkg := fs.String("pkg", "codec", "package dir relative to module")
	run := fs.String("run", "", "only this behaviour")
	dump := fs.String("dump", "", "dump SMT of obligations whose name contains this")
	timeout := fs.Int("t", 10, "solver timeout")
	verbose := fs.Bool("v", false, "list every obligation")
	fs.Parse(args)
	repo := envOr("VERIF_REPO", "/repo")
	vdir := envOr("VERIF_DIR", "/verif")
	t0 := time.Now()
	V, err := LoadVerifier(repo, vdir)
	if err != nil {
		fmt.Fprintln(os.Stderr, err)
		return 2
	}
	if err := loadPrelude(vdir); err != nil {
		fmt.Fprintln(os.Stderr, err)
		return 2
	}
	fmt.Printf("loaded in %.1fs\n", time.Since(t0).Seconds())
	pkgPath := modPath + "/" + *pkg
	cfg := &solveCfg{timeout: *timeout, seed: 0, scratch: scratchDir(), parallel: 14}
	defer os.RemoveAll(cfg.scratch)
	rc := 0
	specs := fs.Args()
	if len(specs) == 1 && specs[0] == "all" {
		specs = nil
		cf := V.files[pkgPath]
		for _, name := range cf.Order {
			fn := V.lookupFunc(pkgPath, name)
			if fn == nil {
				fmt.Println("contract for missing function", name)
				rc = 1
				continue
			}
			sp := name
			if fn.TypeParams() != nil && fn.TypeParams().Len() > 0 {
				var ts []string
				for i := 0; i < fn.TypeParams().Len(); i++ {
					tp := fn.TypeParams().At(i)
					if isCodecInterface(tp.Constraint()) {
						break
					}
					if i == 0 && fn.TypeParams().Len() == 2 || strings.Contains(name, "String") || name == "checkPrefix" {
						ts = append(ts, "uint16")
					} else {
						ts = append(ts, "int32")
					}
				}
				if len(ts) > 0 {
					sp += "[" + strings.Join(ts, ",") + "]"
				}
			}
			specs = append(specs, sp)
		}
	}
	for _, spec := range specs {
		// Name or Name[uint16,int16]
		name, targs := spec, []types.Type(nil)
		if i := strings.IndexByte(spec, '['); i >= 0 {
			name = spec[:i]
			for _, t := range strings.Split(strings.Trim(spec[i:], "[]"), ",") {
				targs = append(targs, basicByName[strings.TrimSpace(t)])
			}
		}
		if strings.HasPrefix(spec, "lemma:") {
			l := V.findLemma(strings.TrimPrefix(spec, "lemma:"))
			if l == nil {
				fmt.Fprintln(os.Stderr, "no such lemma")
				return 2
			}
			obs := V.VerifyLemma(l)
			dischargeAll(obs, cfg)
			for _, o := range obs {
				fmt.Printf("  %-8s %-10s %5.2fs %s\n", o.Status, o.Backend, o.Seconds, o.Name)
				if *dump != "" && strings.Contains(o.Name, *dump) {
					f := filepath.Join("/tmp", sanitize(o.Name)+".smt2")
					os.WriteFile(f, []byte(o.SMTBody()), 0o644)
				}
			}
			continue
		}
		tg, err := V.target(pkgPath, name, targs)
		if err != nil {
			fmt.Fprintln(os.Stderr, err)
			return 2
		}
		var only map[string]bool
		if *run != "" {
			only = map[string]bool{*run: true}
		}
		t1 := time.Now()
		obs := V.VerifyFunction(tg, only)
		gen := time.Since(t1).Seconds()
		t1 = time.Now()
		dischargeAll(obs, cfg)
		n, ok := 0, 0
		for _, o := range obs {
			if o.Canary {
				if o.Status == "unsat" {
					fmt.Println("  VACUOUS:", o.Name)
					rc = 1
				}
				continue
			}
			n++
			if o.Discharged() {
				ok++
			}
			if *verbose || !o.Discharged() {
				fmt.Printf("  %-8s %-10s %5.2fs %s   -- %s\n", o.Status, o.Backend, o.Seconds, o.Name, o.Detail)
				if !o.Discharged() {
					rc = 1
				}
			}
			if *dump != "" && strings.Contains(o.Name, *dump) {
				f := filepath.Join("/tmp", sanitize(o.Name)+".smt2")
				os.WriteFile(f, []byte(o.SMTBody()), 0o644)
				fmt.Println("   dumped", f)
			}
		}
		fmt.Printf("%s: %d/%d discharged (gen %.2fs, solve %.2fs)\n", tg.Inst, ok, n, gen, time.Since(t1).Seconds())
	}
	var tr []string
	for k := range V.trustedUsed {
		tr = append(tr, k)
	}
	sort.Strings(tr)
	fmt.Println("trusted:", strings.Join(tr, ", "))
	return rc
}

var _ = ssa.BuilderMode(0)

func cmdMsg(args []string) int {
	fs := flag.NewFlagSet("msg", flag.ExitOnError)
	runs := fs.String("runs", "ok,safe,toolong,rt,decsafe,re,repeat", "which runs")
	dump := fs.String("dump", "", "dump SMT of obligations whose name contains this")
	timeout := fs.Int("t", 10, "solver timeout")
	verbose := fs.Bool("v", false, "list every obligation")
	segs := fs.Bool("segs", false, "print extracted format")
	fs.Parse(args)
	V, err := LoadVerifier(envOr("VERIF_REPO", "/repo"), envOr("VERIF_DIR", "/verif"))
	if err != nil {
		fmt.Fprintln(os.Stderr, err)
		return 2
	}
	if err := loadPrelude(envOr("VERIF_DIR", "/verif")); err != nil {
		fmt.Fprintln(os.Stderr, err)
		return 2
	}
	V.tableMode = "pinned"
	cfg := &solveCfg{timeout: *timeout, seed: 0, scratch: scratchDir(), parallel: 14}
	defer os.RemoveAll(cfg.scratch)
	want := map[string]bool{}
	for _, r := range strings.Split(*runs, ",") {
		want[r] = true
	}
	rc := 0
	tot, okc := 0, 0
	t0 := time.Now()
	for _, mt := range V.messageTypes() {
		sel := false
		for _, a := range fs.Args() {
			if a == "all" || a == mt.Name || strings.HasPrefix(mt.Name, a) {
				sel = true
			}
		}
		if !sel {
			continue
		}
		var obs []*Obligation
		enc := V.EncodeOK(mt, []string{"C01"})
		if want["ok"] {
			obs = append(obs, enc.Obs...)
		}
		if *segs {
			for i, p := range enc.Paths {
				fmt.Printf("  %s path %d cond=%v\n", mt.Name, i+1, p.Cond)
				for _, s := range describeSegs(p.Segs) {
					fmt.Println("     ", s)
				}
			}
		}
		if want["safe"] {
			obs = append(obs, V.EncodeSafe(mt, []string{"C17"})...)
		}
		if want["toolong"] {
			obs = append(obs, V.EncodeTooLong(mt, []string{"C18"})...)
		}
		if want["rt"] {
			obs = append(obs, V.DecodeRT(mt, enc, []string{"C01"})...)
		}
		if want["decsafe"] {
			obs = append(obs, V.DecodeSafe(mt, []string{"C09"})...)
		}
		if want["re"] {
			obs = append(obs, V.DecodeRE(mt, []string{"C08"})...)
		}
		if want["repeat"] {
			obs = append(obs, V.EncodeRepeat(mt, enc, []string{"C06"})...)
		}
		dischargeAll(obs, cfg)
		n, k := 0, 0
		for _, o := range obs {
			n++
			if o.Discharged() {
				k++
			}
			if *verbose || !o.Discharged() {
				fmt.Printf("  %-8s %-10s %5.2fs %s   -- %s\n", o.Status, o.Backend, o.Seconds, o.Name, o.Detail)
			}
			if !o.Discharged() {
				rc = 1
			}
			if *dump != "" && strings.Contains(o.Name, *dump) {
				f := filepath.Join("/tmp", sanitize(o.Name)+".smt2")
				os.WriteFile(f, []byte(o.SMTBody()), 0o644)
				fmt.Println("   dumped", f)
			}
		}
		tot += n
		okc += k
		fmt.Printf("%s: %d/%d\n", mt.Name, k, n)
	}
	fmt.Printf("TOTAL %d/%d in %.1fs\n", okc, tot, time.Since(t0).Seconds())
	return rc
}
