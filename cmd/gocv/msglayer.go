package main

// Message layer verification: every type with Encode/Decode methods is run symbolically
// against the codec contracts; the format a type writes is *extracted* from its Encode
// (strongest post-condition) and its Decode is verified against that format (rt, re), so
// that consistent two-sided changes stay quiet for the format-relative properties and are
// reported by the comparison with the pinned layout (C02, C03, C12).

import (
	"fmt"
	"go/types"
	"sort"
	"strings"

	"golang.org/x/tools/go/ssa"
)

type MsgType struct {
	Pkg    *ssa.Package
	Named  *types.Named
	Struct *types.Struct
	Enc    *ssa.Function
	Dec    *ssa.Function
	Name   string // pkgname.Type
	HasErr bool   // Encode returns error
}

func (V *Verifier) messageTypes() []*MsgType {
	var out []*MsgType
	for path, p := range V.pkgs {
		if !V.inRepo(path) {
			continue
		}
		for _, m := range p.Members {
			t, ok := m.(*ssa.Type)
			if !ok {
				continue
			}
			n, ok := t.Type().(*types.Named)
			if !ok || !hasCodecMethods(n) {
				continue
			}
			st := n.Underlying().(*types.Struct)
			enc := V.prog.LookupMethod(types.NewPointer(n), p.Pkg, "Encode")
			dec := V.prog.LookupMethod(types.NewPointer(n), p.Pkg, "Decode")
			if enc == nil || dec == nil || enc.Blocks == nil || dec.Blocks == nil {
				continue
			}
			out = append(out, &MsgType{Pkg: p, Named: n, Struct: st, Enc: enc, Dec: dec, Name: p.Pkg.Name() + "." + n.Obj().Name(), HasErr: enc.Signature.Results().Len() == 1})
		}
	}
	sort.Slice(out, func(i, j int) bool { return out[i].Name < out[j].Name })
	return out
}

// EncPath is one successful path through Encode in the ok run.
type EncPath struct {
	Cond   []*Term       // branch conditions on the inputs (e.g. Body == nil)
	Segs   []*Term       // bytes appended, segment by segment
	Post   map[int]Value // receiver fields after the call
	PostSt *State
	Calls  []*CallRecord
	Tag    string
}

type EncInfo struct {
	T      *MsgType
	Recv   *Obj
	Fields map[int]Value // symbolic field values before the call
	U0     *Term
	Buf    *Obj
	Init   *State
	Domain []*Term // callee ok-domains assumed (counts fit prefixes, dyn keys registered, parts encodable)
	Canon  []*Term // round-trip domain contributed by the writers' canon clauses
	Paths  []*EncPath
	Obs    []*Obligation
}

// newReceiver builds a receiver object whose fields hold arbitrary values of their types.
func (x *Exec) newReceiver(st *State, mt *MsgType, prefix string) (*Obj, map[int]Value) {
	o := newObj("struct", mt.Named, prefix, "recv")
	fs := map[int]Value{}
	st.heap[o] = &Content{Fields: fs}
	for i := 0; i < mt.Struct.NumFields(); i++ {
		f := mt.Struct.Field(i)
		ft := f.Type()
		if _, isStruct := ft.Underlying().(*types.Struct); isStruct && !hasCodecMethods(ft) {
			continue // plain nested structs are materialised lazily
		}
		var v Value
		if _, isStruct := ft.Underlying().(*types.Struct); isStruct {
			v = x.symValue(st, ft, prefix+"."+f.Name(), "recv")
		} else {
			v = x.symValue(st, ft, prefix+"."+f.Name(), "recv")
		}
		// message parts held in lists are non-nil (nil elements are outside every property)
		if sl, ok := v.(VSlice); ok {
			if isPartType(sl.Elem) {
				j := Var("j!nn", SInt)
				c := st.get(sl.Arr).Seq
				st.assume(Forall([]*Term{j}, Implies(And(Le(IntC(0), j), Lt(j, Len(c))), Not(App("elemnil", SBool, At(c, j)))), At(c, j)))
			}
		}
		fs[i] = v
	}
	return o, fs
}

func isPartType(t types.Type) bool {
	if p, ok := t.Underlying().(*types.Pointer); ok {
		return hasCodecMethods(p.Elem())
	}
	return false
}

func (V *Verifier) msgExec(mt *MsgType, fn *ssa.Function, run string, props []string) *Exec {
	x := V.newExec(fn, nil, Subst{}, mt.Name+"."+fn.Name(), run)
	x.props = props
	x.maxPaths = 20000
	return x
}

func (x *Exec) startMsg(mt *MsgType, recvName string) (*State, *Obj, map[int]Value, *Obj) {
	st := &State{env: map[ssa.Value]Value{}, heap: map[*Obj]*Content{}, alloc: IntC(0), entryOf: map[*ssa.BasicBlock]*State{}, variant: map[*ssa.BasicBlock]*Term{}, callOrd: map[string]int{}}
	recv, fields := x.newReceiver(st, mt, recvName)
	bufv := x.symValue(st, x.fn.Params[1].Type(), "buf", "param:buf").(VPtr)
	bufv.IsNil = False
	st.env[x.fn.Params[0]] = VPtr{Obj: recv, IsNil: False}
	st.env[x.fn.Params[1]] = bufv
	x.names[x.fn.Params[0].Name()] = st.env[x.fn.Params[0]]
	x.names[x.fn.Params[1].Name()] = bufv
	return st, recv, fields, bufv.Obj
}

func errNilOf(res []Value) *Term {
	for _, r := range res {
		if e, ok := r.(VErr); ok {
			return e.Nil
		}
	}
	return True
}

// EncodeOK runs Encode assuming every callee's ok-domain, extracts the format, and obliges
// that no error return is reachable under that domain.
func (V *Verifier) EncodeOK(mt *MsgType, props []string) *EncInfo {
	x := V.msgExec(mt, mt.Enc, "ok", props)
	st, recv, fields, buf := x.startMsg(mt, "p")
	info := &EncInfo{T: mt, Recv: recv, Fields: fields, Buf: buf, U0: st.get(buf).Seq}
	info.Init = st.clone()
	x.old = info.Init
	x.assumeOK = func(s *State, fc *FuncContract, in ssa.Instruction, hyp *Term) {
		s.assume(hyp)
		s.domain = append(s.domain, hyp)
	}
	x.onCall = func(s *State, rec *CallRecord) {
		s.calls = append(s.calls, rec)
		if rec.FC != nil {
			for _, ce := range rec.FC.Canon {
				cx := &Exec{V: V, fn: nil, sigma: rec.Sigma, names: rec.Names, ghosts: map[string]*Term{}, holes: map[string]string{}, isCallee: true}
				ev := cx.evaluator(s)
				if t, err := ev.boolTerm(ce); err == nil {
					s.canon = append(s.canon, t)
				}
			}
		}
		if rec.Kind == "schema-encode" {
			s.canon = append(s.canon, App("canond", SBool, rec.Tag, rec.MV))
		}
	}
	x.onReturn = func(s *State, res []Value) {
		en := errNilOf(res)
		if en.IsFalse() || s.implied(en) == -1 {
			x.oblige(s, "ensures", "no-error@"+pathTag(s), False, "under the ok-domain of every callee no error return is reachable")
			return
		}
		if !en.IsTrue() {
			s.assume(en)
		}
		u := s.get(buf).Seq
		segs := Segs(u)
		if len(segs) == 0 || !Same(segs[0], info.U0) {
			x.oblige(s, "ensures", "append-only@"+pathTag(s), False, "the buffer after Encode is the buffer before it followed by the bytes of this message")
			return
		}
		p := &EncPath{Segs: segs[1:], Post: map[int]Value{}, PostSt: s, Calls: s.calls, Tag: pathTag(s)}
		for _, c := range s.pc[len(info.Init.pc):] {
			p.Cond = append(p.Cond, c)
		}
		for i, v := range s.get(recv).Fields {
			p.Post[i] = v
		}
		info.Paths = append(info.Paths, p)
		info.Domain = append(info.Domain, s.domain...)
		info.Canon = append(info.Canon, s.canon...)
	}
	x.execAll(st)
	info.Obs = x.obs
	if len(info.Paths) == 0 {
		x.fail(st, "vacuity", "no-success-path", "Encode has no successful path under the callee ok-domains")
		info.Obs = x.obs
	}
	return info
}

// EncodeSafe: implicit safety obligations of Encode for arbitrary field contents (C17), and the
// frame-level properties that hold on every path (append-only, C06).
func (V *Verifier) EncodeSafe(mt *MsgType, props []string) []*Obligation {
	x := V.msgExec(mt, mt.Enc, "safe", props)
	x.emitSafe = true
	st, recvE, _, buf := x.startMsg(mt, "p")
	u0 := st.get(buf).Seq
	x.old = st.clone()
	// the schema contract used at call sites says "err == nil ==> exactly the format was appended"; it is sound
	// because a nil result implies that every callee's ok-domain held (the writers refuse everything else)
	x.assumeBeh = func(s *State, fc *FuncContract, b *Behavior, in ssa.Instruction, hyp *Term) {
		if b.Name == "ok" {
			s.domain = append(s.domain, hyp)
		}
	}
	x.onReturn = func(s *State, res []Value) {
		u := s.get(buf).Seq
		x.oblige(s, "ensures", "prefix-preserved@"+pathTag(s), App("extends", SBool, u, u0), "bytes already in the buffer are unchanged (also on error paths)")
		en := errNilOf(res)
		if en.IsFalse() || s.implied(en) == -1 {
			return
		}
		x.dynObligations(s, mt, x.old, recvE, en, false)
		s2 := s.clone()
		s2.assume(en)
		for k, h := range s.domain {
			x.oblige(s2, "ensures", fmt.Sprintf("success-implies-domain#%d@%s", k+1, pathTag(s)), h, "Encode returns nil only if every length and count fitted its prefix (so that a nil result means the whole format was written)")
		}
	}
	x.execAll(st)
	if x.returns == 0 {
		x.fail(st, "vacuity", "no-return-reached", "no path reaches a return")
	}
	return x.obs
}

// EncodeTooLong: for every call site whose callee refuses over-long values, the error propagates (C18).
func (V *Verifier) EncodeTooLong(mt *MsgType, props []string) []*Obligation {
	// discover the refusing call sites from a scouting run
	scout := V.msgExec(mt, mt.Enc, "scout", props)
	st0, _, _, _ := scout.startMsg(mt, "p")
	type site struct {
		in  ssa.Instruction
		beh string
		fc  string
	}
	var sites []site
	seen := map[string]bool{}
	scout.assumeBeh = func(s *State, fc *FuncContract, b *Behavior, in ssa.Instruction, hyp *Term) {
		for _, p := range b.Props {
			if p == "C18" && b.Name != "ok" {
				k := fmt.Sprintf("%p/%s", in, b.Name)
				if !seen[k] {
					seen[k] = true
					sites = append(sites, site{in, b.Name, fc.Name})
				}
			}
		}
	}
	scout.assumeOK = func(s *State, fc *FuncContract, in ssa.Instruction, hyp *Term) { s.assume(hyp) }
	scout.onReturn = func(s *State, res []Value) {}
	scout.execAll(st0)
	var out []*Obligation
	for _, sx := range sites {
		sx := sx
		x := V.msgExec(mt, mt.Enc, fmt.Sprintf("toolong(%s#%d/%s)", sx.fc, scout.callNo[sx.in], sx.beh), props)
		st, _, _, _ := x.startMsg(mt, "p")
		x.old = st.clone()
		hit := false
		x.assumeOK = func(s *State, fc *FuncContract, in ssa.Instruction, hyp *Term) {
			if in != sx.in {
				s.assume(hyp)
			}
		}
		x.assumeBeh = func(s *State, fc *FuncContract, b *Behavior, in ssa.Instruction, hyp *Term) {
			if in == sx.in && b.Name == sx.beh {
				hit = true
				for _, g := range b.Ghosts {
					_ = g
				}
				s.assume(hyp)
				s.marks = append(s.marks, "toolong")
			}
		}
		x.onReturn = func(s *State, res []Value) {
			reached := false
			for _, m := range s.marks {
				if m == "toolong" {
					reached = true
				}
			}
			if !reached {
				return
			}
			x.oblige(s, "ensures", "error-returned@"+pathTag(s), Not(errNilOf(res)), "a value too long for its prefix makes Encode return an error")
		}
		x.execAll(st)
		if !hit {
			x.fail(st, "vacuity", "site-not-reached", "the refusing call site was not reached")
		}
		out = append(out, x.obs...)
	}
	return out
}

// fieldEq states that a decoded field value equals the encoded one (bit-for-bit / byte-for-byte;
// nil and empty lists are both the empty sequence).
func (x *Exec) fieldEq(sa *State, a Value, sb *State, b Value) *Term {
	switch av := a.(type) {
	case VInt:
		if bv, ok := b.(VInt); ok {
			return Eq(av.T, bv.T)
		}
	case VBool:
		if bv, ok := b.(VBool); ok {
			return Eq(av.T, bv.T)
		}
	case VStr:
		if bv, ok := b.(VStr); ok {
			return Eq(av.T, bv.T)
		}
	case VSlice:
		if bv, ok := b.(VSlice); ok {
			return Eq(x.sliceContent(sa, av), x.sliceContent(sb, bv))
		}
	case VPtr, VIface:
		oa, na := dynOf(a)
		ob, nb := dynOf(b)
		if oa != nil && ob != nil {
			ca, cb := sa.get(oa), sb.get(ob)
			// parts are compared by their wire image: equal up to what Encode itself recomputes (unique lemma)
			return And(Eq(orFalse(na), orFalse(nb)), Implies(Not(orFalse(na)), And(Eq(ca.Tag, cb.Tag), Eq(App("Wd", SSeq, ca.Tag, ca.MV), App("Wd", SSeq, cb.Tag, cb.MV)))))
		}
		if oa == nil && ob == nil {
			return Eq(x.isNilTerm(a), x.isNilTerm(b))
		}
	}
	return False
}

// DecodeRT chains Decode after Encode: Decode(Encode(v) ++ r) = (v°, r) for an arbitrary receiver.
func (V *Verifier) DecodeRT(mt *MsgType, enc *EncInfo, props []string) []*Obligation {
	var out []*Obligation
	for pi, path := range enc.Paths {
		if V.outsideRoundTripDomain(mt, enc, path) {
			continue
		}
		x := V.msgExec(mt, mt.Dec, fmt.Sprintf("rt#%d", pi+1), props)
		// start from the post-state of Encode so that the ghost message (its parts and lists) stays visible
		st := path.PostSt.clone()
		st.env = map[ssa.Value]Value{}
		st.calls, st.domain, st.canon = nil, nil, nil
		for _, c := range enc.Canon {
			st.assume(c)
		}
		x.pkgForTags = mt.Pkg
		for _, h := range V.dynDomain(mt, enc, path) {
			st.assume(h)
		}
		q, _ := x.newReceiver(st, mt, "q") // arbitrary prior content (C15)
		r := FreshSeq("rest")
		st.assume(App("bytes", SBool, r))
		bo := newObj("buffer", nil, "buf", "param:buf")
		st.heap[bo] = &Content{Seq: Cat(append(append([]*Term{}, path.Segs...), r)...)}
		st.env[mt.Dec.Params[0]] = VPtr{Obj: q, IsNil: False}
		st.env[mt.Dec.Params[1]] = VPtr{Obj: bo, IsNil: False}
		x.names[mt.Dec.Params[0].Name()] = st.env[mt.Dec.Params[0]]
		x.names[mt.Dec.Params[1].Name()] = st.env[mt.Dec.Params[1]]
		x.old = st.clone()
		x.rtMode = true
		x.onReturn = func(s *State, res []Value) {
			tag := pathTag(s)
			x.oblige(s, "ensures", "success@"+tag, errNilOf(res), "decoding an encoding succeeds")
			s2 := s.clone()
			s2.assume(errNilOf(res))
			x.oblige(s2, "ensures", "consumed-exactly@"+tag, Eq(s2.get(bo).Seq, r), "decoding consumes exactly the message's bytes and leaves the rest")
			wb := V.writtenBackFields(mt)
			for i := 0; i < mt.Struct.NumFields(); i++ {
				f := mt.Struct.Field(i)
				// the decoded message is compared with the ORIGINAL message; only the fields the encoder computes
				// itself (pinned as written-back in the layout) and parts it materialised from nil are compared
				// with what the encoder left in the object
				want, ok := path.Post[i]
				wantSt := path.PostSt
				if orig, has := enc.Fields[i]; has && !wb[f.Name()] {
					useOrig := true
					if _, isnil := dynOf(orig); isnil != nil && path.PostSt.implied(isnil) == 1 {
						useOrig = false // nil part: the encoder wrote (and stored) its zero value
					}
					if useOrig {
						want, wantSt, ok = orig, enc.Init, true
					}
				}
				if !ok {
					if _, isStruct := f.Type().Underlying().(*types.Struct); isStruct && !hasCodecMethods(f.Type()) {
						continue
					}
					x.oblige(s2, "ensures", fmt.Sprintf("field(%s)@%s", f.Name(), tag), False, "field has no encoded value")
					continue
				}
				got, ok := s2.get(q).Fields[i]
				if !ok {
					got = x.load(s2, VFieldPtr{Obj: q, Idx: i}, nil, f.Type())
				}
				x.oblige(s2, "ensures", fmt.Sprintf("field(%s)@%s", f.Name(), tag), x.fieldEq(s2, got, wantSt, want), "decoded field equals the original one")
			}
		}
		x.execAll(st)
		if x.returns == 0 {
			x.fail(st, "vacuity", "no-return-reached", "no path reaches a return")
		}
		out = append(out, x.obs...)
	}
	return out
}

// DecodeSafe: implicit safety obligations and the allocation bound for arbitrary input bytes and
// an arbitrary receiver (C09, C10).
func (V *Verifier) DecodeSafe(mt *MsgType, props []string) []*Obligation {
	x := V.msgExec(mt, mt.Dec, "safe", props)
	x.emitSafe = true
	st, recvObj, _, buf := x.startMsg(mt, "q")
	u0 := st.get(buf).Seq
	x.old = st.clone()
	x.onReturn = func(s *State, res []Value) {
		tag := pathTag(s)
		en := errNilOf(res)
		u := s.get(buf).Seq
		x.oblige(s, "ensures", "suffix@"+tag, App("suffixof", SBool, u, u0), "what is left unread is a suffix of the input")
		// ownership (C16): whatever the decoder stores into the message is freshly allocated, never a view of the buffer
		for i, fv := range s.get(recvObj).Fields {
			if sl, ok := fv.(VSlice); ok && sl.Arr != nil && s.written[fmt.Sprintf("%d.%d", recvObj.ID, i)] {
				ok := sl.Arr.Prov == "fresh" || (sl.IsNil != nil && sl.IsNil.IsTrue())
				x.obligeProps(s, "frame", fmt.Sprintf("frame/fresh-field(%s)@%s", mt.Struct.Field(i).Name(), tag), BoolC(ok), "a decoded list does not alias the source buffer or the old content (provenance: "+sl.Arr.Prov+")", []string{"C16"})
			}
		}
		x.dynObligations(s, mt, x.old, recvObj, en, true)
		x.oblige(s, "ensures", "min-consumption@"+tag, Implies(en, Le(Add(Len(u), IntC(V.minWidth(mt))), Len(u0))), fmt.Sprintf("a successful decode consumes at least the %d fixed bytes of the format", V.minWidth(mt)))
		if V.checkAlloc {
			a, b := V.allocConsts(mt)
			x.obligeProps(s, "alloc", "alloc/success@"+tag, Implies(en, Le(s.alloc, Add(IntC(b), Mul(IntC(a), Sub(Len(u0), Len(u)))))), fmt.Sprintf("allocation on success <= %d + %d x bytes consumed", b, a), []string{"C10"})
			x.obligeProps(s, "alloc", "alloc/failure@"+tag, Implies(Not(en), Le(s.alloc, Add(IntC(b), Mul(IntC(a), Len(u0))))), fmt.Sprintf("allocation on failure <= %d + %d x bytes present", b, a), []string{"C10"})
		}
	}
	// time proportional to the input (C09): a repeating group is read element by element for as many elements as the
	// wire claims, stopping at the first element that fails; that is bounded by the input only if every element
	// consumes at least one byte
	for i := 0; i < mt.Struct.NumFields(); i++ {
		sl, ok := mt.Struct.Field(i).Type().Underlying().(*types.Slice)
		if !ok {
			continue
		}
		et := sl.Elem()
		if p, isP := et.(*types.Pointer); isP {
			et = p.Elem()
		}
		if !hasCodecMethods(et) {
			continue
		}
		w := int64(0)
		for _, m2 := range V.messageTypes() {
			if types.Identical(m2.Named, et) {
				w = V.minWidth(m2)
			}
		}
		x.obligeProps(st, "ensures", fmt.Sprintf("list(%s)/element-consumes-input", mt.Struct.Field(i).Name()), BoolC(w >= 1),
			fmt.Sprintf("every element of the repeating group occupies at least one byte (found %d), so the number of iterations is bounded by the input length", w), []string{"C09", "C10"})
	}
	if V.checkAlloc {
		a, b := V.allocConsts(mt)
		x.obligeProps(st, "alloc", "alloc/constants-are-small", BoolC(a <= maxAllocA && b <= maxAllocB), fmt.Sprintf("the bound of %s is %d + %d x bytes: a small constant plus a small multiple of the input", mt.Name, b, a), []string{"C10"})
	}
	x.execAll(st)
	if x.returns == 0 {
		x.fail(st, "vacuity", "no-return-reached", "no path reaches a return")
	}
	return x.obs
}

// DecodeRE: whatever Decode accepts, re-encoding the result reproduces the consumed bytes (C08),
// and the accepted result is in the round-trip domain (C15 via uniqueness).
func (V *Verifier) DecodeRE(mt *MsgType, props []string) []*Obligation {
	x := V.msgExec(mt, mt.Dec, "re", props)
	st, q, _, buf := x.startMsg(mt, "q")
	u0 := st.get(buf).Seq
	x.old = st.clone()
	var out []*Obligation
	x.onReturn = func(s *State, res []Value) {
		en := errNilOf(res)
		if en.IsFalse() || s.implied(en) == -1 {
			return
		}
		s.assume(en)
		tag := pathTag(s)
		ufinal := s.get(buf).Seq
		// every field of the receiver has been overwritten on a success path (C15, second witness)
		for i := 0; i < mt.Struct.NumFields(); i++ {
			f := mt.Struct.Field(i)
			if !s.written[fmt.Sprintf("%d.%d", q.ID, i)] {
				if _, isStruct := f.Type().Underlying().(*types.Struct); isStruct {
					continue
				}
				if fv, ok := s.get(q).Fields[i]; ok {
					if o, _ := dynOf(fv); o != nil && s.written[fmt.Sprintf("obj%d", o.ID)] {
						continue // a reused nested part was fully re-decoded in place
					}
				}
				x.obligeProps(s, "frame", fmt.Sprintf("field-overwritten(%s)@%s", f.Name(), tag), False, "every field of the receiver is assigned on a successful decode", []string{"C15"})
			}
		}
		// re-encode the decoded message into a fresh buffer
		ex := V.msgExec(mt, mt.Enc, "re/encode@"+tag, props)
		es := s.clone()
		es.env = map[ssa.Value]Value{}
		es.calls, es.domain, es.canon = nil, nil, nil
		w := newObj("buffer", nil, "out", "fresh")
		es.heap[w] = &Content{Seq: Empty}
		es.env[mt.Enc.Params[0]] = VPtr{Obj: q, IsNil: False}
		es.env[mt.Enc.Params[1]] = VPtr{Obj: w, IsNil: False}
		ex.names[mt.Enc.Params[0].Name()] = es.env[mt.Enc.Params[0]]
		ex.names[mt.Enc.Params[1].Name()] = es.env[mt.Enc.Params[1]]
		ex.old = es.clone()
		pre := s.get(q).Fields
		ex.onReturn = func(e *State, eres []Value) {
			etag := pathTag(e)
			een := errNilOf(eres)
			ex.oblige(e, "ensures", "reencode-succeeds@"+etag, een, "the decoded message can be encoded again")
			e2 := e.clone()
			e2.assume(een)
			segs := Segs(e2.get(w).Seq)
			// self-computed fields: a segment whose value is what Encode stored into a field that Decode had read
			adj := make([]*Term, len(segs))
			for k, sg := range segs {
				adj[k] = sg
				if sg.Op == "app" && sg.Name == "enc" {
					for i, pv := range e2.get(q).Fields {
						pi, ok := pv.(VInt)
						old, ok2 := pre[i].(VInt)
						if ok && ok2 && !Same(pi.T, old.T) {
							ti, _ := basicInfo(mt.Struct.Field(i).Type())
							if Same(sg.Args[2], ubits(ti, pi.T)) {
								adj[k] = App("enc", SSeq, sg.Args[0], sg.Args[1], ubits(ti, old.T))
							}
						}
					}
				}
			}
			ex.oblige(e2, "ensures", "reproduces-consumed-bytes@"+etag, Eq(expandSeq(e2, u0), Cat(append(append([]*Term{}, adj...), ufinal)...)), "encoding the decoded message reproduces the bytes consumed (self-computed length/checksum fields excepted)")
		}
		ex.execAll(es)
		out = append(out, ex.obs...)
	}
	x.trackWrites = true
	x.execAll(st)
	out = append(out, x.obs...)
	return out
}

// EncodeRepeat: encoding again after a first encode yields the same bytes (C06).
func (V *Verifier) EncodeRepeat(mt *MsgType, enc *EncInfo, props []string) []*Obligation {
	var out []*Obligation
	for pi, path := range enc.Paths {
		x := V.msgExec(mt, mt.Enc, fmt.Sprintf("repeat#%d", pi+1), props)
		st := path.PostSt.clone()
		st.env = map[ssa.Value]Value{}
		st.calls, st.domain, st.canon = nil, nil, nil
		w := newObj("buffer", nil, "buf2", "param:buf")
		u2 := FreshSeq("other")
		st.assume(App("bytes", SBool, u2))
		st.heap[w] = &Content{Seq: u2}
		st.env[mt.Enc.Params[0]] = VPtr{Obj: enc.Recv, IsNil: False}
		st.env[mt.Enc.Params[1]] = VPtr{Obj: w, IsNil: False}
		x.names[mt.Enc.Params[0].Name()] = st.env[mt.Enc.Params[0]]
		x.names[mt.Enc.Params[1].Name()] = st.env[mt.Enc.Params[1]]
		x.old = st.clone()
		x.assumeOK = func(s *State, fc *FuncContract, in ssa.Instruction, hyp *Term) {}
		x.onReturn = func(s *State, res []Value) {
			tag := pathTag(s)
			x.oblige(s, "ensures", "second-encode-succeeds@"+tag, errNilOf(res), "a message that encoded once encodes again")
			s2 := s.clone()
			s2.assume(errNilOf(res))
			x.oblige(s2, "ensures", "same-bytes@"+tag, Eq(s2.get(w).Seq, Cat(append([]*Term{u2}, path.Segs...)...)), "the second encoding appends the same bytes, whatever the buffer held")
		}
		x.execAll(st)
		out = append(out, x.obs...)
	}
	return out
}

func describeSegs(segs []*Term) []string {
	var out []string
	for _, s := range segs {
		k := s.Key()
		if len(k) > 160 {
			k = k[:160] + "…"
		}
		out = append(out, k)
	}
	return out
}

var _ = strings.TrimSpace

// dynDomain: "body / extension type matching its discriminator" — for every dyn field pinned in the
// layout (dyn F by K in table), a caller-supplied part has the type the table selects for the key.
func (V *Verifier) dynDomain(mt *MsgType, enc *EncInfo, path *EncPath) []*Term {
	ly := V.layoutFor(mt)
	if ly == nil {
		return nil
	}
	var out []*Term
	idx := func(name string) int {
		for i := 0; i < mt.Struct.NumFields(); i++ {
			if mt.Struct.Field(i).Name() == name {
				return i
			}
		}
		return -1
	}
	for _, d := range ly.Dyns {
		fi, ki := idx(d.Field), idx(d.Key)
		ti := V.tables[mt.Pkg.Pkg.Path()+"."+d.Table]
		if fi < 0 || ki < 0 || ti == nil {
			continue
		}
		key := keyValueTerm(enc.Fields[ki])
		o, isnil := dynOf(enc.Fields[fi])
		if key == nil || o == nil {
			continue
		}
		dom, tag, ok := V.tableTerms(ti, key)
		if !ok {
			continue
		}
		out = append(out, Implies(Not(orFalse(isnil)), And(dom, Eq(enc.Init.get(o).Tag, tag))))
	}
	return out
}

// scoutDyns finds, from the Decode of a type, which field selects the type of which dyn field through which table.
func (V *Verifier) scoutDyns(mt *MsgType) []DynSpec {
	x := V.msgExec(mt, mt.Dec, "scout", nil)
	st, q, _, _ := x.startMsg(mt, "q")
	x.old = st.clone()
	type hit struct {
		table string
		key   *Term
		obj   *Obj
	}
	var hits []hit
	var out []DynSpec
	seen := map[string]bool{}
	x.onCall = func(s *State, rec *CallRecord) {
		if rec.Kind == "table" && rec.Obj != nil {
			hits = append(hits, hit{rec.Table, rec.MV, rec.Obj})
		}
	}
	x.onReturn = func(s *State, res []Value) {
		for _, h := range hits {
			keyField, dynField := "", ""
			for i, v := range s.get(q).Fields {
				if kt := keyValueTerm(v); kt != nil && Same(kt, h.key) {
					keyField = mt.Struct.Field(i).Name()
				}
				if o, _ := dynOf(v); o == h.obj {
					dynField = mt.Struct.Field(i).Name()
				}
			}
			if keyField != "" && dynField != "" && !seen[dynField] {
				seen[dynField] = true
				out = append(out, DynSpec{Field: dynField, Key: keyField, Table: h.table})
			}
		}
	}
	x.execAll(st)
	return out
}

// scoutFills: which discriminator tables the Encode of a type consults (to create a part the caller left nil).
func (V *Verifier) scoutFills(mt *MsgType) map[string]bool {
	out := map[string]bool{}
	x := V.msgExec(mt, mt.Enc, "scout", nil)
	st, _, _, _ := x.startMsg(mt, "p")
	x.old = st.clone()
	x.onCall = func(s *State, rec *CallRecord) {
		if rec.Kind == "table" {
			out[rec.Table] = true
		}
	}
	x.onReturn = func(s *State, res []Value) {}
	x.execAll(st)
	return out
}

// dynObligations (C12): what a nil result of Encode / Decode says about the discriminators of the pinned dyn clauses.
// Decode: the decoded key is registered and the part built is of the type pinned for it.
// Encode: wherever the encoder fills in a part the caller left nil (pinned `fills`), the key is registered and
// the part it stored is of the pinned type.
func (x *Exec) dynObligations(s *State, mt *MsgType, init *State, recv *Obj, en *Term, decode bool) {
	V := x.V
	ly := V.layoutFor(mt)
	if ly == nil {
		return
	}
	idx := func(name string) int {
		for i := 0; i < mt.Struct.NumFields(); i++ {
			if mt.Struct.Field(i).Name() == name {
				return i
			}
		}
		return -1
	}
	for _, d := range ly.Dyns {
		if !decode && !d.Fills {
			continue
		}
		fi, ki := idx(d.Field), idx(d.Key)
		ti := V.tables[mt.Pkg.Pkg.Path()+"."+d.Table]
		if fi < 0 || ki < 0 || ti == nil {
			continue
		}
		final := s.get(recv).Fields
		keyV := final[ki]
		if !decode {
			keyV = init.get(recv).Fields[ki]
		}
		key := keyValueTerm(keyV)
		if key == nil {
			x.obligeProps(s, "ensures", fmt.Sprintf("discriminator(%s)/key-readable@%s", d.Field, pathTag(s)), False, "the discriminator field has a value the table can be asked for", []string{"C12"})
			continue
		}
		dom, tag, ok := V.tableTerms(ti, key)
		if !ok {
			continue
		}
		hyp := en
		if !decode {
			_, wasNil := dynOf(init.get(recv).Fields[fi])
			hyp = And(en, orFalse(wasNil))
		}
		if hyp.IsFalse() {
			continue
		}
		what := "a successful Decode means that the discriminator read from the wire is registered"
		if !decode {
			what = "Encode succeeds on a part the caller left out only if the discriminator is registered"
		}
		x.obligeProps(s, "ensures", fmt.Sprintf("discriminator(%s)/unknown-is-error@%s", d.Field, pathTag(s)), Implies(hyp, dom), what, []string{"C12"})
		o, isnil := dynOf(final[fi])
		var typed *Term
		if o == nil {
			typed = False
		} else {
			typed = And(Not(orFalse(isnil)), Eq(s.get(o).Tag, tag))
		}
		x.obligeProps(s, "ensures", fmt.Sprintf("discriminator(%s)/builds-pinned-type@%s", d.Field, pathTag(s)), Implies(And(hyp, dom), typed), "the part built for a registered discriminator is of the type pinned for it", []string{"C12"})
	}
}

// outsideRoundTripDomain: a frame whose body the caller left nil (and the encoder skipped) has no
// body type to match its discriminator; such values are outside the domain of C01 / C07.
func (V *Verifier) outsideRoundTripDomain(mt *MsgType, enc *EncInfo, path *EncPath) bool {
	ly := V.layoutFor(mt)
	if ly == nil {
		return false
	}
	for _, d := range ly.Dyns {
		for i := 0; i < mt.Struct.NumFields(); i++ {
			if mt.Struct.Field(i).Name() != d.Field {
				continue
			}
			if _, isnil := dynOf(path.Post[i]); isnil != nil && path.PostSt.implied(isnil) == 1 {
				return true
			}
		}
	}
	return false
}

// minWidth: a lower bound on the number of bytes every encoding of the type occupies, computed from
// the extracted format (sum of the fixed-width segments). Used as the callee fact minwidth(tag) and
// proved for the type itself by DecodeSafe (a successful Decode consumes at least that much).
func (V *Verifier) minWidth(mt *MsgType) int64 {
	if V.minW == nil {
		V.minW = map[string]int64{}
	}
	if w, ok := V.minW[mt.Name]; ok {
		return w
	}
	V.minW[mt.Name] = 0 // cycle guard
	enc := V.EncodeOK(mt, nil)
	best := int64(-1)
	for _, p := range enc.Paths {
		var w int64
		for _, s := range p.Segs {
			if l := SynLen(s); l != nil && l.IsConst() {
				w += l.Val.Int64()
			} else if s.Op == "app" && s.Name == "Wd" && s.Args[0].Op == "app" {
				if sub := V.msgTypeByTag(s.Args[0].Name); sub != nil {
					w += V.minWidth(sub)
				}
			}
		}
		if best < 0 || w < best {
			best = w
		}
	}
	if best < 0 {
		best = 0
	}
	V.minW[mt.Name] = best
	return best
}

func (V *Verifier) msgTypeByTag(tagName string) *MsgType {
	if V.byTag == nil {
		V.byTag = map[string]*MsgType{}
		for _, mt := range V.messageTypes() {
			V.byTag["tag_"+mt.Name] = mt
		}
	}
	return V.byTag[tagName]
}

// minWidthTerm resolves minwidth(tag) to a numeral when the tag is a known message type.
func (V *Verifier) minWidthTerm(tag *Term) *Term {
	if tag.Op == "app" && len(tag.Args) == 0 {
		if mt := V.msgTypeByTag(tag.Name); mt != nil {
			return IntC(V.minWidth(mt))
		}
	}
	return App("minwidth", SInt, tag)
}

// allocConsts measures, for a message type, numerals (A, B) such that its Decode allocates at most
// B + A x (bytes consumed) on success and B + A x (bytes present) on failure. The numerals are only
// candidates: DecodeSafe proves the bound with them (alloc/success, alloc/failure obligations).
func (V *Verifier) allocConsts(mt *MsgType) (int64, int64) {
	if V.allocK == nil {
		V.allocK = map[string][2]int64{}
	}
	if k, ok := V.allocK[mt.Name]; ok {
		return k[0], k[1]
	}
	V.allocK[mt.Name] = [2]int64{maxAllocA + 1, maxAllocB + 1} // cycle guard: recursive types have no bound
	x := V.msgExec(mt, mt.Dec, "measure", nil)
	st, _, _, _ := x.startMsg(mt, "q")
	x.old = st.clone()
	var a, b int64
	unknown := false
	x.onReturn = func(s *State, res []Value) {
		if s.allocC > b {
			b = s.allocC
		}
		if s.allocA > a {
			a = s.allocA
		}
		if s.allocUnknown {
			unknown = true
		}
	}
	x.execAll(st)
	if unknown {
		a, b = maxAllocA+1, maxAllocB+1
	}
	if a < 1 {
		a = 1
	}
	b += 64
	V.allocK[mt.Name] = [2]int64{a, b}
	return a, b
}

// allocConstsOfTag: the constants of the decoder that a (possibly table-selected) type tag stands for.
func (V *Verifier) allocConstsOfTag(tag *Term) (int64, int64) {
	var a, b int64 = 1, 64
	found := false
	var walk func(t *Term)
	walk = func(t *Term) {
		if t.Op == "app" && len(t.Args) == 0 && strings.HasPrefix(t.Name, "tag_") {
			if mt := V.msgTypeByTag(t.Name); mt != nil {
				found = true
				ta, tb := V.allocConsts(mt)
				if ta > a {
					a = ta
				}
				if tb > b {
					b = tb
				}
			}
			return
		}
		for _, c := range t.Args {
			walk(c)
		}
	}
	walk(tag)
	if !found {
		// an arbitrary (caller-supplied or generic) part: no numerals are known
		return maxAllocA + 1, maxAllocB + 1
	}
	return a, b
}

// writtenBackFields: the fields the pinned layout lists as written back by Encode (self-computed length / checksum).
func (V *Verifier) writtenBackFields(mt *MsgType) map[string]bool {
	out := map[string]bool{}
	if ly := V.layoutFor(mt); ly != nil {
		for _, p := range ly.Paths {
			for _, e := range p.Posts {
				if e.Kind == "bin" && e.Args[0].Kind == "ident" {
					out[e.Args[0].Name] = true
				}
			}
		}
	}
	return out
}
