package main

// Lock discipline ghost state (C19): every mutex object carries held ∈ {none,R,W}; a map that
// lives in the same struct as a mutex is guarded by it.

import (
	"fmt"
	"sort"

	"golang.org/x/tools/go/ssa"
)

func (x *Exec) lockOp(st *State, recv Value, op string, in ssa.Instruction) {
	p, ok := recv.(VPtr)
	if !ok || p.Obj == nil || p.Obj.Kind != "mutex" {
		panic("unsupported:lock operation on an unknown mutex")
	}
	c := st.mut(p.Obj)
	name := fmt.Sprintf("lock/%s@b%d", op, blockIdx(in))
	switch op {
	case "Lock", "RLock":
		x.obligeProps(st, "lock", name+"/not-held", BoolC(c.Held == "none"), "lock is not already held by this call (no self-deadlock)", []string{"C19"})
		st.acq++
		if !x.noAcqLimit {
			x.obligeProps(st, "lock", name+"/single-acquisition", BoolC(st.acq <= 1), "each registry operation is one critical section (at most one acquisition)", []string{"C19"})
		}
		if op == "Lock" {
			c.Held = "W"
		} else {
			c.Held = "R"
		}
		// havoc on acquire: other goroutines may have changed everything the lock guards
		for _, g := range guardedBy(st, p.Obj) {
			{
				gc := st.mut(g)
				gc.MV = FreshInt(g.Name + "@acquire")
				if x.onAcquire != nil {
					x.onAcquire(st, g)
				}
				if x.onAcquireState != nil && g.Kind == "map" {
					x.onAcquireState(st, g)
				}
			}
		}
	case "Unlock":
		x.obligeProps(st, "lock", name+"/held-W", BoolC(c.Held == "W"), "Unlock releases a held write lock", []string{"C19"})
		c.Held = "none"
		if x.onRelease != nil {
			x.onRelease(st, p.Obj)
		}
	case "RUnlock":
		x.obligeProps(st, "lock", name+"/held-R", BoolC(c.Held == "R"), "RUnlock releases a held read lock", []string{"C19"})
		c.Held = "none"
		if x.onRelease != nil {
			x.onRelease(st, p.Obj)
		}
	}
}

// lockAccess checks that a guarded map is read under R or W and written under W.
func (x *Exec) lockAccess(st *State, o *Obj, write bool, in ssa.Instruction) {
	m := o.Guard
	if m == nil {
		return
	}
	held := st.get(m).Held
	if write {
		x.obligeProps(st, "lock", fmt.Sprintf("lock/write-under-W@b%d", blockIdx(in)), BoolC(held == "W"), "guarded map is written only with the write lock held", []string{"C19", "C20"})
	} else {
		x.obligeProps(st, "lock", fmt.Sprintf("lock/read-under-lock@b%d", blockIdx(in)), BoolC(held == "R" || held == "W"), "guarded map is read only with the lock held", []string{"C19", "C20"})
	}
}

// lockReturn: no lock is held when the function returns.
func (x *Exec) lockReturn(st *State) {
	for o, c := range st.heap {
		if o.Kind == "mutex" && c.Held != "" && c.Held != "none" {
			x.obligeProps(st, "lock", "lock/released-at-return@"+pathTag(st), False, "every lock is released on every return path", []string{"C19"})
		}
	}
}

func guardedBy(st *State, mu *Obj) []*Obj {
	var out []*Obj
	for o := range st.heap {
		if o.Guard == mu {
			out = append(out, o)
		}
	}
	sort.Slice(out, func(i, j int) bool { return out[i].ID < out[j].ID })
	return out
}
