// Bounded conformance tests of the TRUSTED library contracts that gocv uses (DESIGN.md 5.1):
// each contract is restated as an executable predicate over the ghost content u of a buffer and
// compared with the real library on exhaustive small inputs and random larger ones.
// Labelled *bounded*: reported under bounded_standins, never counted as proved.
package conformance

import (
	"bytes"
	"encoding/binary"
	"hash/crc32"
	"io"
	"math"
	"math/rand"
	"testing"
)

func enc(le bool, w int, x uint64) []byte {
	b := make([]byte, w)
	for i := 0; i < w; i++ {
		sh := uint(8 * (w - 1 - i))
		if le {
			sh = uint(8 * i)
		}
		b[i] = byte(x >> sh)
	}
	return b
}

func smallInputs() [][]byte {
	out := [][]byte{{}}
	for n := 1; n <= 3; n++ {
		vals := []byte{0, 1, 0x7f, 0x80, 0xff}
		idx := make([]int, n)
		for {
			b := make([]byte, n)
			for i := range b {
				b[i] = vals[idx[i]]
			}
			out = append(out, b)
			k := 0
			for k < n {
				idx[k]++
				if idx[k] < len(vals) {
					break
				}
				idx[k] = 0
				k++
			}
			if k == n {
				break
			}
		}
	}
	rng := rand.New(rand.NewSource(7))
	for i := 0; i < 200; i++ {
		b := make([]byte, rng.Intn(40))
		rng.Read(b)
		out = append(out, b)
	}
	return out
}

func TestBufferContracts(t *testing.T) {
	for _, u := range smallInputs() {
		for _, p := range smallInputs()[:60] {
			// Write / WriteString / WriteByte: u' = u ++ p, (len p, nil)
			b := bytes.NewBuffer(append([]byte{}, u...))
			n, err := b.Write(p)
			if n != len(p) || err != nil || !bytes.Equal(b.Bytes(), append(append([]byte{}, u...), p...)) || b.Len() != len(u)+len(p) {
				t.Fatalf("Write contract: u=%x p=%x", u, p)
			}
			b = bytes.NewBuffer(append([]byte{}, u...))
			n, err = b.WriteString(string(p))
			if n != len(p) || err != nil || !bytes.Equal(b.Bytes(), append(append([]byte{}, u...), p...)) {
				t.Fatalf("WriteString contract")
			}
			// Read(p): n = min(len p, len u); p[:n] = u[:n]; u' = u[n:]; err nil unless u empty and len p > 0
			b = bytes.NewBuffer(append([]byte{}, u...))
			dst := make([]byte, len(p))
			n, err = b.Read(dst)
			m := len(p)
			if len(u) < m {
				m = len(u)
			}
			wantNil := len(u) > 0 || len(p) == 0
			if n != m || (err == nil) != wantNil || !bytes.Equal(dst[:n], u[:m]) || !bytes.Equal(b.Bytes(), u[m:]) {
				t.Fatalf("Read contract: u=%x len p=%d: n=%d err=%v", u, len(p), n, err)
			}
			// io.ReadFull: n = min; err == nil iff n == len p; u' = u[n:]
			b = bytes.NewBuffer(append([]byte{}, u...))
			dst = make([]byte, len(p))
			n, err = io.ReadFull(b, dst)
			if n != m || (err == nil) != (m == len(p)) || !bytes.Equal(dst[:n], u[:m]) || !bytes.Equal(b.Bytes(), u[m:]) {
				t.Fatalf("ReadFull contract: u=%x len p=%d: n=%d err=%v rest=%x", u, len(p), n, err, b.Bytes())
			}
		}
		// Next(n): first min(n, len u) bytes, consumed
		for n := 0; n <= len(u)+2; n++ {
			b := bytes.NewBuffer(append([]byte{}, u...))
			got := b.Next(n)
			m := n
			if len(u) < m {
				m = len(u)
			}
			if !bytes.Equal(got, u[:m]) || !bytes.Equal(b.Bytes(), u[m:]) {
				t.Fatalf("Next contract")
			}
		}
		// bytes.NewBuffer(s): u = s ; Reset: u = empty ; Bytes: view of u
		b := bytes.NewBuffer(u)
		if !bytes.Equal(b.Bytes(), u) || b.Len() != len(u) {
			t.Fatalf("NewBuffer contract")
		}
		b.Reset()
		if b.Len() != 0 {
			t.Fatalf("Reset contract")
		}
	}
}

func TestBinaryContracts(t *testing.T) {
	rng := rand.New(rand.NewSource(11))
	vals := []uint64{0, 1, 0x7f, 0x80, 0xff, 0x100, 0x7fff, 0x8000, 0xffff, 0x7fffffff, 0x80000000, 0xffffffff, math.MaxInt64, 1 << 63, math.MaxUint64}
	for i := 0; i < 300; i++ {
		vals = append(vals, rng.Uint64())
	}
	for _, le := range []bool{false, true} {
		var order binary.ByteOrder = binary.BigEndian
		if le {
			order = binary.LittleEndian
		}
		for _, x := range vals {
			check := func(v interface{}, w int, bits uint64, ptr interface{}, back func() uint64) {
				var b bytes.Buffer
				b.Write([]byte{1, 2})
				if err := binary.Write(&b, order, v); err != nil || !bytes.Equal(b.Bytes(), append([]byte{1, 2}, enc(le, w, bits)...)) {
					t.Fatalf("binary.Write contract: %T %v le=%v: %x", v, v, le, b.Bytes())
				}
				in := bytes.NewBuffer(append(enc(le, w, bits), 9, 9))
				if err := binary.Read(in, order, ptr); err != nil || back() != bits || !bytes.Equal(in.Bytes(), []byte{9, 9}) {
					t.Fatalf("binary.Read contract: %T le=%v", v, le)
				}
				// short input: error, target unchanged is not relied upon; everything available is consumed
				for k := 0; k < w; k++ {
					short := bytes.NewBuffer(enc(le, w, bits)[:k])
					if err := binary.Read(short, order, ptr); err == nil || short.Len() != 0 {
						t.Fatalf("binary.Read short contract: w=%d k=%d err=%v left=%d", w, k, err, short.Len())
					}
				}
			}
			var u8 uint8
			var u16 uint16
			var u32 uint32
			var u64 uint64
			var i8 int8
			var i16 int16
			var i32 int32
			var i64 int64
			var f32 float32
			var f64 float64
			check(uint8(x), 1, x&0xff, &u8, func() uint64 { return uint64(u8) })
			check(uint16(x), 2, x&0xffff, &u16, func() uint64 { return uint64(u16) })
			check(uint32(x), 4, x&0xffffffff, &u32, func() uint64 { return uint64(u32) })
			check(x, 8, x, &u64, func() uint64 { return u64 })
			check(int8(x), 1, x&0xff, &i8, func() uint64 { return uint64(uint8(i8)) })
			check(int16(x), 2, x&0xffff, &i16, func() uint64 { return uint64(uint16(i16)) })
			check(int32(x), 4, x&0xffffffff, &i32, func() uint64 { return uint64(uint32(i32)) })
			check(int64(x), 8, x, &i64, func() uint64 { return uint64(i64) })
			check(math.Float32frombits(uint32(x)), 4, x&0xffffffff, &f32, func() uint64 { return uint64(math.Float32bits(f32)) })
			check(math.Float64frombits(x), 8, x, &f64, func() uint64 { return math.Float64bits(f64) })
			// by pointer, as the library passes &v
			v32 := uint32(x)
			var b bytes.Buffer
			binary.Write(&b, order, &v32)
			if !bytes.Equal(b.Bytes(), enc(le, 4, x&0xffffffff)) {
				t.Fatalf("binary.Write(&v) contract")
			}
			// PutUint32 / Uint32 on a sub-slice
			s := []byte{7, 7, 7, 7, 7, 7, 7}
			order.PutUint32(s[2:6], uint32(x))
			if !bytes.Equal(s, append(append([]byte{7, 7}, enc(le, 4, x&0xffffffff)...), 7)) || order.Uint32(s[2:6]) != uint32(x) {
				t.Fatalf("PutUint32 contract")
			}
		}
	}
}

func crc32ref(data []byte) uint32 {
	crc := ^uint32(0)
	for _, b := range data {
		crc ^= uint32(b)
		for i := 0; i < 8; i++ {
			if crc&1 != 0 {
				crc = crc>>1 ^ 0xEDB88320
			} else {
				crc >>= 1
			}
		}
	}
	return ^crc
}

func TestCrc32Contract(t *testing.T) {
	if crc32ref([]byte("123456789")) != 0xCBF43926 {
		t.Fatal("reference check value")
	}
	// exhaustive up to 2 bytes, then random up to 1 MiB
	for a := 0; a < 256; a++ {
		if crc32.ChecksumIEEE([]byte{byte(a)}) != crc32ref([]byte{byte(a)}) {
			t.Fatalf("crc32 1 byte %d", a)
		}
		for b := 0; b < 256; b++ {
			if crc32.ChecksumIEEE([]byte{byte(a), byte(b)}) != crc32ref([]byte{byte(a), byte(b)}) {
				t.Fatalf("crc32 2 bytes")
			}
		}
	}
	rng := rand.New(rand.NewSource(3))
	for i := 0; i < 40; i++ {
		b := make([]byte, rng.Intn(1<<uint(4+i%17)))
		rng.Read(b)
		if crc32.ChecksumIEEE(b) != crc32ref(b) {
			t.Fatalf("crc32 random")
		}
	}
}

func TestRepeatAndConversions(t *testing.T) {
	for n := 0; n < 70; n++ {
		for _, c := range []byte{0, ' ', '0', 0x80, 0xff} {
			r := bytes.Repeat([]byte{c}, n)
			if len(r) != n {
				t.Fatal("Repeat length")
			}
			for _, x := range r {
				if x != c {
					t.Fatal("Repeat content")
				}
			}
		}
	}
	for _, u := range smallInputs() {
		s := string(u)
		b := []byte(s)
		if !bytes.Equal(b, u) {
			t.Fatal("string/[]byte conversions preserve bytes")
		}
		if len(u) > 0 {
			u2 := append([]byte{}, u...)
			s2 := string(u2)
			u2[0] ^= 0xff
			if s2 != string(u) {
				t.Fatal("string(b) copies")
			}
		}
	}
}
