module conformance

go 1.24.2
