import Mathlib.Logic.Equiv.List
import Mathlib.Data.Nat.Pairing
import Mathlib.Tactic.Ring

/-
  Lean 4 model of the NON-sequence fragment of /verif/prelude/prelude.smt2: scalar encoders,
  element kinds, boxing, minwidth, checksums.  Companion of Prelude.lean (which proves the 45
  sequence axioms); this file proves the remaining 20 named axioms plus the unnamed pow256 facts,
  so all 65 named axioms of the prelude are now Lean-checked.

  BSeq is `List Int` as in Prelude.lean.  Every function symbol below has ONE concrete total
  definition and all theorems are about that one set of definitions, i.e. the axioms hold
  SIMULTANEOUSLY in a single model.  The definitions of len, at', empty, cat, take, drop, unit,
  rep, isbyte, bytes, fixed are copied verbatim from Prelude.lean (namespace GocvPrelude) so that
  this file is self-contained (namespace GocvModel).

  Check:  lean /verif/prelude/Model.lean
          (plain `lean`, no lake project; Lean 4.33.0 finds Mathlib under /opt/veriftools/mathlib4
           by itself.  Exit 0, no output.  About 2.5 s wall-clock warm, about 45 s the first time
           after boot when the .olean files are not yet in the page cache.  Only three small
           Mathlib modules are imported; `import Mathlib` would cost minutes.)
          No `sorry`, `axiom`, `admit`, `native_decide`.  `#print axioms` on every theorem shows
          only propext / Classical.choice / Quot.sound.

  The model (intended meanings)
  * pow256 w = 256 ^ w.toNat.
  * enc o w x = the w base-256 digits of (x mod 256^w) (Int.emod, so negative x is reduced to its
    two's-complement bit pattern); o = 0 big-endian (encBE, most significant byte first), any
    other o little-endian (encLE).  encBE and encLE are defined INDEPENDENTLY by recursion
    (digit n of x is x / 256^n % 256) and related by `encBE_eq` / `enc_le_is_reverse_be`.
    dec o w s = value of the digit list s in that order (decBE / decLE, again independent
    definitions related by `decBE_eq`); dec does not look at w.
  * ipair : Int × Int → Int is the injective pairing Nat.pair ∘ (intEquivNat × intEquivNat) with
    projections ifst / isnd.  k_enc o w = ipair 0 (ipair o w), k_encs o w = ipair 1 (ipair o w),
    k_fix n p sd = ipair 2 (ipair n (ipair p sd)), k_pstr o w = ipair 3 (ipair o w),
    k_obj t = ipair 4 t: injective, pairwise disjoint ranges (`ipair_inj`).
    `elem k x` is ONE function: it decodes k with ifst / isnd and dispatches on the tag; kinds
    that are not in the range of a constructor give [].  For tag 1 (k_encs o w) it is
    enc o w (x mod pow256 w) for EVERY w, of which ax_elem_encs1/2/4/8 are the instances.
  * Wd t x = [] (any fixed function works), minwidth t = 0.
  * sbox / sunbox = the two directions of boxEquiv : List Int ≃ Int
    (Denumerable.eqv (List ℤ) : List ℤ ≃ ℕ composed with Equiv.intEquivNat.symm).
  * xor16 a b = Nat.xor a.toNat b.toNat; crcbit is the prelude's define-fun verbatim (SMT div /
    mod on Int are Euclidean = Lean's Int `/` `%`); crcbits / crc16r are exactly the recursions
    the axioms spell out, on i.toNat / n.toNat.
  * Sanity checks at the end of the file evaluate closed instances in the kernel, among them the
    CRC-16/MODBUS check value crc16r "123456789" 9 = 0x4B37 (that one uses `decide +kernel`,
    which is kernel evaluation, NOT native_decide).

  PROVED (20 named axioms, same names, same statements and guards as prelude.smt2):
    scalar encoders:  ax_enc_len ax_dec_enc ax_enc_dec ax_enc_1
    element kinds:    ax_elem_encs1 ax_elem_encs2 ax_elem_encs4 ax_elem_encs8
                      ax_elem_enc ax_elem_fix ax_elem_pstr ax_elem_obj
    boxing:           ax_box ax_unbox
    misc:             ax_minwidth_nonneg
    checksums:        ax_xor16_range ax_crcbits_0 ax_crcbits_step ax_crc16r_0 ax_crc16r_step
  PROVED (unnamed assert of the prelude): pow256_facts
    (pow256 1 = 256 ∧ pow256 2 = 65536 ∧ pow256 4 = 4294967296 ∧ pow256 8 = 18446744073709551616;
     also split into pow256_1 pow256_2 pow256_4 pow256_8)
  PROVED (extra):     enc_le_is_reverse_be : enc 1 w x = (enc 0 w x).reverse
  Stronger forms (no okw guard): enc_len_gen (all w ≥ 0, ALL integers x), dec_enc_gen (all w),
    enc_dec_gen (all w); the ax_* versions are their specialisations to okw w.
  Auxiliary: length_encLE bytes_encLE decLE_encLE encLE_decLE encLE_succ_snoc encBE_eq
    decLE_append decBE_eq okw_nonneg ifst_ipair isnd_ipair ipair_inj.

  Notes on the transcription (deviations)
  * :pattern annotations are triggers only and are dropped; SMT `mod` / `div` are `%` / `/` on Int.
  * `at` is called `at'` (as in Prelude.lean); out-of-range reads return 0.
  * The pow256 assert is unnamed in the prelude; it is called pow256_facts here.
  * okw and crcbit are define-funs in the prelude and are transcribed as definitions.
  * No Bool-valued `=` occurs in these 20 axioms, so no `↔` was needed.
  * crc32_ieee is declared in the prelude without any axiom; it is not modelled (nothing to prove).
  * flat (ax_flat_done / ax_flat_step) is proved in Prelude.lean for an ARBITRARY elem, hence in
    particular for the elem defined here.

  -- UNPROVABLE: none.  All 20 axioms and the pow256 facts hold in the intended model for ALL
  -- integer arguments satisfying the guards stated in prelude.smt2 (negative x in ax_enc_len,
  -- every order o, negative c in ax_crcbits_*, n > len s in ax_crc16r_step, ...).  No definition
  -- was bent to make an axiom pass.
-/
namespace GocvModel

abbrev Seq := List Int

/-! ### definitions copied verbatim from Prelude.lean (namespace GocvPrelude) -/

def len (s : Seq) : Int := s.length
def at' (s : Seq) (i : Int) : Int := if i < 0 then 0 else s.getD i.toNat 0
def empty : Seq := []
def cat (a b : Seq) : Seq := a ++ b
def take (s : Seq) (n : Int) : Seq := s.take n.toNat
def drop (s : Seq) (n : Int) : Seq := s.drop n.toNat
def unit (x : Int) : Seq := [x]
def rep (b n : Int) : Seq := List.replicate n.toNat b
def isbyte (x : Int) : Prop := 0 ≤ x ∧ x < 256
def bytes (s : Seq) : Prop := ∀ x ∈ s, 0 ≤ x ∧ x < 256
def fixed (s : Seq) (n pad side : Int) : Seq :=
  if len s > n then take s n
  else if side = 1 then cat (rep pad (n - len s)) s
  else cat s (rep pad (n - len s))

/-! ### scalar encoders -/

def pow256 (w : Int) : Int := 256 ^ w.toNat
def okw (w : Int) : Prop := w = 1 ∨ w = 2 ∨ w = 4 ∨ w = 8

/-- little-endian: least significant base-256 digit first. -/
def encLE : Nat → Int → List Int
  | 0, _ => []
  | n + 1, x => (x % 256) :: encLE n (x / 256)

/-- big-endian: most significant base-256 digit first (defined independently of `encLE`). -/
def encBE : Nat → Int → List Int
  | 0, _ => []
  | n + 1, x => (x / 256 ^ n % 256) :: encBE n x

/-- value of a little-endian digit list. -/
def decLE : List Int → Int
  | [] => 0
  | b :: s => b + 256 * decLE s

/-- value of a big-endian digit list (defined independently of `decLE`). -/
def decBE : List Int → Int
  | [] => 0
  | b :: s => b * 256 ^ s.length + decBE s

/-- enc o w x: the w base-256 digits of x mod 256^w; o = 0 big-endian, otherwise little-endian. -/
def enc (o w x : Int) : Seq :=
  if o = 0 then encBE w.toNat (x % 256 ^ w.toNat) else encLE w.toNat (x % 256 ^ w.toNat)

/-- dec o w s: the value of the digit list s; o = 0 big-endian, otherwise little-endian. -/
def dec (o _w : Int) (s : Seq) : Int := if o = 0 then decBE s else decLE s

/-! ### boxing: a bijection List Int ≃ Int -/

def boxEquiv : List Int ≃ Int := (Denumerable.eqv (List Int)).trans Equiv.intEquivNat.symm
def sbox (s : Seq) : Int := boxEquiv s
def sunbox (x : Int) : Seq := boxEquiv.symm x

/-! ### element kinds -/

/-- injective pairing Int × Int → Int (its range is the non-negative integers). -/
def ipair (a b : Int) : Int := ((Nat.pair (Equiv.intEquivNat a) (Equiv.intEquivNat b) : Nat) : Int)
def ifst (z : Int) : Int := Equiv.intEquivNat.symm (Nat.unpair z.toNat).1
def isnd (z : Int) : Int := Equiv.intEquivNat.symm (Nat.unpair z.toNat).2

def k_enc (o w : Int) : Int := ipair 0 (ipair o w)
def k_encs (o w : Int) : Int := ipair 1 (ipair o w)
def k_fix (n p sd : Int) : Int := ipair 2 (ipair n (ipair p sd))
def k_pstr (o w : Int) : Int := ipair 3 (ipair o w)
def k_obj (t : Int) : Int := ipair 4 t

def Wd (_t _x : Int) : Seq := []
def minwidth (_t : Int) : Int := 0

/-- ONE element encoder: decode the kind code k into (tag, payload) and dispatch on the tag. -/
def elem (k x : Int) : Seq :=
  if ifst k = 0 then enc (ifst (isnd k)) (isnd (isnd k)) x
  else if ifst k = 1 then
    enc (ifst (isnd k)) (isnd (isnd k)) (x % pow256 (isnd (isnd k)))
  else if ifst k = 2 then
    fixed (sunbox x) (ifst (isnd k)) (ifst (isnd (isnd k))) (isnd (isnd (isnd k)))
  else if ifst k = 3 then
    cat (enc (ifst (isnd k)) (isnd (isnd k)) (len (sunbox x))) (sunbox x)
  else if ifst k = 4 then Wd (isnd k) x
  else []

/-! ### checksums -/

def xor16 (a b : Int) : Int := ((a.toNat ^^^ b.toNat : Nat) : Int)
def crcbit (c : Int) : Int := if c % 2 = 1 then xor16 (c / 2) 40961 else c / 2
def crcbitsN (c : Int) : Nat → Int
  | 0 => c
  | m + 1 => crcbit (crcbitsN c m)
def crcbits (c i : Int) : Int := crcbitsN c i.toNat
def crc16rN (s : Seq) : Nat → Int
  | 0 => 65535
  | m + 1 => crcbits (xor16 (crc16rN s m) (at' s (m : Int))) 8
def crc16r (s : Seq) (n : Int) : Int := crc16rN s n.toNat

/-! ## Proofs: scalar encoders -/

theorem pow256_facts :
    pow256 1 = 256 ∧ pow256 2 = 65536 ∧ pow256 4 = 4294967296 ∧
    pow256 8 = 18446744073709551616 := by
  refine ⟨?_, ?_, ?_, ?_⟩ <;> rfl

theorem pow256_1 : pow256 1 = 256 := pow256_facts.1
theorem pow256_2 : pow256 2 = 65536 := pow256_facts.2.1
theorem pow256_4 : pow256 4 = 4294967296 := pow256_facts.2.2.1
theorem pow256_8 : pow256 8 = 18446744073709551616 := pow256_facts.2.2.2

theorem okw_nonneg {w : Int} (h : okw w) : 0 ≤ w := by
  unfold okw at h; omega

theorem length_encLE (n : Nat) (x : Int) : (encLE n x).length = n := by
  induction n generalizing x with
  | zero => rfl
  | succ n ih => simp [encLE, ih]

theorem bytes_encLE (n : Nat) (x : Int) : bytes (encLE n x) := by
  induction n generalizing x with
  | zero => intro y hy; simp [encLE] at hy
  | succ n ih =>
    intro y hy
    simp only [encLE, List.mem_cons] at hy
    rcases hy with rfl | hy
    · omega
    · exact ih _ y hy

theorem decLE_encLE (n : Nat) (x : Int) : 0 ≤ x → x < 256 ^ n → decLE (encLE n x) = x := by
  induction n generalizing x with
  | zero =>
    intro h0 h1
    simp only [pow_zero] at h1
    simp only [encLE, decLE]; omega
  | succ n ih =>
    intro h0 h1
    rw [pow_succ] at h1
    have h2 : x / 256 < 256 ^ n := by
      generalize (256 : Int) ^ n = P at *
      omega
    have := ih (x / 256) (by omega) h2
    simp only [encLE, decLE, this]; omega

theorem encLE_decLE (s : List Int) :
    bytes s → encLE s.length (decLE s) = s ∧ 0 ≤ decLE s ∧ decLE s < 256 ^ s.length := by
  induction s with
  | nil => intro _; simp [encLE, decLE]
  | cons b s ih =>
    intro hb
    have hb0 := hb b List.mem_cons_self
    have hs : bytes s := fun y hy => hb y (List.mem_cons_of_mem _ hy)
    obtain ⟨e, l, u⟩ := ih hs
    have h1 : (b + 256 * decLE s) % 256 = b := by omega
    have h2 : (b + 256 * decLE s) / 256 = decLE s := by omega
    simp only [List.length_cons, encLE, decLE, pow_succ]
    rw [h1, h2, e]
    refine ⟨rfl, by omega, ?_⟩
    generalize (256 : Int) ^ s.length = P at *
    omega

/-- snoc form of `encLE`: the last digit of n+1 little-endian digits is digit number n. -/
theorem encLE_succ_snoc (n : Nat) (x : Int) :
    encLE (n + 1) x = encLE n x ++ [x / 256 ^ n % 256] := by
  induction n generalizing x with
  | zero => simp [encLE]
  | succ n ih =>
    rw [encLE, ih (x / 256)]
    have : x / 256 / 256 ^ n = x / 256 ^ (n + 1) := by
      rw [Int.ediv_ediv_of_nonneg (by decide), pow_succ, Int.mul_comm]
    rw [this]
    simp [encLE]

theorem encBE_eq (n : Nat) (x : Int) : encBE n x = (encLE n x).reverse := by
  induction n with
  | zero => rfl
  | succ n ih => rw [encLE_succ_snoc, List.reverse_append]; simp [encBE, ih]

theorem decLE_append (a b : List Int) : decLE (a ++ b) = decLE a + 256 ^ a.length * decLE b := by
  induction a with
  | nil => simp [decLE]
  | cons c a ih => simp only [List.cons_append, decLE, ih, List.length_cons, pow_succ]; ring

theorem decBE_eq (s : List Int) : decBE s = decLE s.reverse := by
  induction s with
  | nil => rfl
  | cons b s ih =>
    simp only [decBE, List.reverse_cons, decLE_append, decLE, ih, List.length_reverse]; ring

/-- extra: the little-endian encoding is the reverse of the big-endian one. -/
theorem enc_le_is_reverse_be (w x : Int) : enc 1 w x = (enc 0 w x).reverse := by
  simp [enc, encBE_eq]

/-- ax_enc_len for every width w ≥ 0 and EVERY integer x (also negative). -/
theorem enc_len_gen (o w x : Int) (hw : 0 ≤ w) : len (enc o w x) = w ∧ bytes (enc o w x) := by
  have hn : ((w.toNat : Nat) : Int) = w := Int.toNat_of_nonneg hw
  unfold enc
  split
  · rw [encBE_eq]
    refine ⟨by simp [len, length_encLE, hn], ?_⟩
    intro y hy
    exact bytes_encLE _ _ y (List.mem_reverse.1 hy)
  · exact ⟨by simp [len, length_encLE, hn], bytes_encLE _ _⟩

theorem dec_enc_gen (o w x : Int) (h0 : 0 ≤ x) (h1 : x < pow256 w) :
    dec o w (enc o w x) = x := by
  unfold pow256 at h1
  have hm : x % 256 ^ w.toNat = x := Int.emod_eq_of_lt h0 h1
  unfold enc dec
  split
  · rw [hm, encBE_eq, decBE_eq, List.reverse_reverse]; exact decLE_encLE _ _ h0 h1
  · rw [hm]; exact decLE_encLE _ _ h0 h1

theorem enc_dec_gen (o w : Int) (s : Seq) (hl : len s = w) (hb : bytes s) :
    enc o w (dec o w s) = s ∧ 0 ≤ dec o w s ∧ dec o w s < pow256 w := by
  have hn : w.toNat = s.length := by simp only [len] at hl; omega
  unfold enc dec pow256
  rw [hn]
  split
  · have hb' : bytes s.reverse := fun y hy => hb y (List.mem_reverse.1 hy)
    obtain ⟨e, l, u⟩ := encLE_decLE s.reverse hb'
    rw [List.length_reverse] at e u
    rw [decBE_eq, Int.emod_eq_of_lt l u, encBE_eq, e, List.reverse_reverse]
    exact ⟨rfl, l, u⟩
  · obtain ⟨e, l, u⟩ := encLE_decLE s hb
    rw [Int.emod_eq_of_lt l u, e]
    exact ⟨rfl, l, u⟩

theorem ax_enc_len (o w x : Int) : okw w → (len (enc o w x) = w ∧ bytes (enc o w x)) :=
  fun h => enc_len_gen o w x (okw_nonneg h)

theorem ax_dec_enc (o w x : Int) : okw w ∧ 0 ≤ x ∧ x < pow256 w → dec o w (enc o w x) = x :=
  fun ⟨_, h0, h1⟩ => dec_enc_gen o w x h0 h1

theorem ax_enc_dec (o w : Int) (s : Seq) :
    okw w ∧ len s = w ∧ bytes s →
      (enc o w (dec o w s) = s ∧ 0 ≤ dec o w s ∧ dec o w s < pow256 w) :=
  fun ⟨_, hl, hb⟩ => enc_dec_gen o w s hl hb

theorem ax_enc_1 (o x : Int) : isbyte x → enc o 1 x = unit x := by
  intro ⟨h0, h1⟩
  have hm : x % 256 = x := Int.emod_eq_of_lt h0 h1
  have ht : (1 : Int).toNat = 1 := rfl
  unfold enc unit
  rw [ht]
  split <;> simp [encBE, encLE, hm]

/-! ## Proofs: boxing, minwidth -/

theorem ax_box (s : Seq) : sunbox (sbox s) = s := boxEquiv.symm_apply_apply s

theorem ax_unbox (x : Int) : sbox (sunbox x) = x := boxEquiv.apply_symm_apply x

theorem ax_minwidth_nonneg (t : Int) : 0 ≤ minwidth t := Int.le_refl 0

/-! ## Proofs: element kinds -/

@[simp] theorem ifst_ipair (a b : Int) : ifst (ipair a b) = a := by
  simp [ifst, ipair]

@[simp] theorem isnd_ipair (a b : Int) : isnd (ipair a b) = b := by
  simp [isnd, ipair]

/-- the pairing is injective, hence so are the kind constructors, and constructors with
    different tags have disjoint ranges. -/
theorem ipair_inj {a b c d : Int} (h : ipair a b = ipair c d) : a = c ∧ b = d := by
  have h1 := congrArg ifst h
  have h2 := congrArg isnd h
  simp only [ifst_ipair, isnd_ipair] at h1 h2
  exact ⟨h1, h2⟩

theorem ax_elem_enc (o w x : Int) : elem (k_enc o w) x = enc o w x := by
  simp [elem, k_enc]

theorem ax_elem_encs1 (o x : Int) : elem (k_encs o 1) x = enc o 1 (x % 256) := by
  simp [elem, k_encs, pow256_1]

theorem ax_elem_encs2 (o x : Int) : elem (k_encs o 2) x = enc o 2 (x % 65536) := by
  simp [elem, k_encs, pow256_2]

theorem ax_elem_encs4 (o x : Int) : elem (k_encs o 4) x = enc o 4 (x % 4294967296) := by
  simp [elem, k_encs, pow256_4]

theorem ax_elem_encs8 (o x : Int) :
    elem (k_encs o 8) x = enc o 8 (x % 18446744073709551616) := by
  simp [elem, k_encs, pow256_8]

theorem ax_elem_fix (n p sd x : Int) : elem (k_fix n p sd) x = fixed (sunbox x) n p sd := by
  simp [elem, k_fix]

theorem ax_elem_pstr (o w x : Int) :
    elem (k_pstr o w) x = cat (enc o w (len (sunbox x))) (sunbox x) := by
  simp [elem, k_pstr]

theorem ax_elem_obj (t x : Int) : elem (k_obj t) x = Wd t x := by
  simp [elem, k_obj]

/-! ## Proofs: checksums -/

theorem ax_xor16_range (a b : Int) :
    0 ≤ a ∧ a < 65536 ∧ 0 ≤ b ∧ b < 65536 → (0 ≤ xor16 a b ∧ xor16 a b < 65536) := by
  intro ⟨ha0, ha1, hb0, hb1⟩
  have h1 : a.toNat < 2 ^ 16 := by omega
  have h2 : b.toNat < 2 ^ 16 := by omega
  have h3 := Nat.xor_lt_two_pow h1 h2
  unfold xor16
  omega

theorem ax_crcbits_0 (c i : Int) : i ≤ 0 → crcbits c i = c := by
  intro h
  have : i.toNat = 0 := by omega
  simp [crcbits, this, crcbitsN]

theorem ax_crcbits_step (c i : Int) : 0 < i → crcbits c i = crcbit (crcbits c (i - 1)) := by
  intro h
  have h1 : i.toNat = (i - 1).toNat + 1 := by omega
  simp only [crcbits]
  rw [h1, crcbitsN]

theorem ax_crc16r_0 (s : Seq) (n : Int) : n ≤ 0 → crc16r s n = 65535 := by
  intro h
  have : n.toNat = 0 := by omega
  simp [crc16r, this, crc16rN]

theorem ax_crc16r_step (s : Seq) (n : Int) :
    0 < n → crc16r s n = crcbits (xor16 (crc16r s (n - 1)) (at' s (n - 1))) 8 := by
  intro h
  have h1 : n.toNat = (n - 1).toNat + 1 := by omega
  have h2 : (((n - 1).toNat : Nat) : Int) = n - 1 := by omega
  simp only [crc16r]
  rw [h1, crc16rN, h2]

/-! ## Sanity checks of the intended meaning (closed computations, kernel-evaluated) -/

example : enc 0 2 258 = [1, 2] := by decide
example : enc 1 2 258 = [2, 1] := by decide
example : enc 0 2 (-2) = [255, 254] := by decide
example : enc 1 4 (-2) = [254, 255, 255, 255] := by decide
example : dec 0 2 [1, 2] = 258 := by decide
example : dec 1 2 [1, 2] = 513 := by decide
example : xor16 40961 65535 = 24574 := by decide
/-- CRC-16/MODBUS check value: crc("123456789") = 0x4B37. -/
example : crc16r [49, 50, 51, 52, 53, 54, 55, 56, 57] 9 = 0x4B37 := by decide +kernel

end GocvModel
