/-
  Lean 4 (core only, no Mathlib) model of the sequence fragment of /verif/prelude/prelude.smt2.

  BSeq is modelled as `List Int`; every SMT function of the sequence fragment is given a concrete
  total definition below, and every in-scope prelude axiom `ax_*` is PROVED as a theorem of the
  same name with the same statement (same guards, same ite structure; the :pattern / hint / hints
  annotations are triggers only and are dropped).  Hence the sequence fragment of the prelude has
  a model, i.e. it is consistent, and no axiom silently constrains Int beyond list semantics.

  Check:  lean /verif/prelude/Prelude.lean      (exit 0, no `sorry`, about 2 s)

  Notes on the transcription
  * SMT `=` between Bools is rendered `↔` (ax_bytes_cat, ax_bytes_unit, ax_eqseq_def).
  * `at` is called `at'`; out-of-range reads (i < 0 or i ≥ len s) return 0.
  * `elem` is an arbitrary parameter `elem : Int → Int → Seq` of `flat`, so ax_flat_done /
    ax_flat_step hold for every interpretation of the element encoder.
  * `fixed` is a define-fun in the prelude (not an axiom); it is transcribed as a definition and
    two sanity lemmas (`len_fixed`, `bytes_fixed`) are proved about it.

  PROVED (45): ax_len_nonneg ax_len_empty ax_len0_empty ax_len_cat ax_len_unit ax_len_rep
    ax_len_take ax_len_drop ax_len_upd ax_at_cat ax_at_unit ax_at_unit_i ax_at_rep ax_at_take
    ax_at_drop ax_at_upd ax_cat_empty_l ax_cat_empty_r ax_cat_assoc ax_take_0 ax_take_all
    ax_drop_0 ax_drop_all ax_take_cat ax_drop_cat ax_take_drop ax_drop_drop ax_take_take
    ax_upd_split ax_rep_0 ax_rep_unfold ax_seq_unfold ax_eqseq_def ax_ext ax_bytes_at
    ax_bytes_empty ax_bytes_cat ax_bytes_take ax_bytes_drop ax_bytes_rep ax_bytes_unit
    ax_flat_done ax_flat_step ax_bsum_0 ax_bsum_step

  SKIPPED (out of scope for this file, not attempted):
    scalar encoders:   ax_enc_len ax_dec_enc ax_enc_dec ax_enc_1 (and the unnamed pow256 facts)
    element kinds:     ax_elem_encs1 ax_elem_encs2 ax_elem_encs4 ax_elem_encs8
                       ax_elem_enc ax_elem_fix ax_elem_pstr ax_elem_obj
    boxing:            ax_box ax_unbox
    misc:              ax_minwidth_nonneg
    checksums:         ax_xor16_range ax_crcbits_0 ax_crcbits_step ax_crc16r_0 ax_crc16r_step
    uninterpreted:     Wd, crc32_ieee, k_enc/k_fix/k_pstr/k_obj/k_encs (no axioms in scope)

  -- UNPROVABLE: none.  Every in-scope axiom holds in this model for ALL integer arguments,
  -- including negative indices / counts and out-of-range positions (checked case by case:
  -- ax_at_cat with i < 0, ax_take_cat / ax_drop_cat with n < 0 or n > len, ax_at_take with
  -- i ≥ len s, ax_at_upd with out-of-range i or j, ax_flat_step with i < 0, ax_bsum_step
  -- with n > len s).
-/
namespace GocvPrelude

abbrev Seq := List Int

def len (s : Seq) : Int := s.length
def at' (s : Seq) (i : Int) : Int := if i < 0 then 0 else s.getD i.toNat 0
def empty : Seq := []
def cat (a b : Seq) : Seq := a ++ b
def take (s : Seq) (n : Int) : Seq := s.take n.toNat
def drop (s : Seq) (n : Int) : Seq := s.drop n.toNat
def unit (x : Int) : Seq := [x]
def rep (b n : Int) : Seq := List.replicate n.toNat b
def upd (s : Seq) (i v : Int) : Seq :=
  if 0 ≤ i ∧ i < s.length then s.set i.toNat v else s
def isbyte (x : Int) : Prop := 0 ≤ x ∧ x < 256
def bytes (s : Seq) : Prop := ∀ x ∈ s, 0 ≤ x ∧ x < 256
def fixed (s : Seq) (n pad side : Int) : Seq :=
  if len s > n then take s n
  else if side = 1 then cat (rep pad (n - len s)) s
  else cat s (rep pad (n - len s))

def flatAux (elem : Int → Int → Seq) (k : Int) (s : Seq) : Int → Nat → Seq
  | _, 0 => []
  | i, fuel + 1 => elem k (at' s i) ++ flatAux elem k s (i + 1) fuel
def flat (elem : Int → Int → Seq) (k : Int) (s : Seq) (i n : Int) : Seq :=
  flatAux elem k s i (n - i).toNat

def bsumN (s : Seq) : Nat → Int
  | 0 => 0
  | m + 1 => bsumN s m + at' s (m : Int)
def bsum (s : Seq) (n : Int) : Int := bsumN s n.toNat

/-! ### length -/

theorem ax_len_nonneg (s : Seq) : 0 ≤ len s := by
  simp [len]

theorem ax_len_empty : len empty = 0 := rfl

theorem ax_len0_empty (s : Seq) : len s = 0 → s = empty := by
  intro h
  simp [len] at h
  simp [h, empty]

theorem ax_len_cat (a b : Seq) : len (cat a b) = len a + len b := by
  simp [len, cat]

theorem ax_len_unit (x : Int) : len (unit x) = 1 := rfl

theorem ax_len_rep (b n : Int) : len (rep b n) = if 0 ≤ n then n else 0 := by
  simp only [len, rep, List.length_replicate]
  split <;> omega

theorem ax_len_take (s : Seq) (n : Int) :
    len (take s n) = if n ≤ 0 then 0 else if n ≤ len s then n else len s := by
  simp only [len, take, List.length_take]
  by_cases h1 : n ≤ 0
  · simp only [h1, if_true]; omega
  · by_cases h2 : n ≤ (s.length : Int)
    · simp only [h1, h2, if_true, if_false]; omega
    · simp only [h1, h2, if_false]; omega

theorem ax_len_drop (s : Seq) (n : Int) :
    len (drop s n) = if n ≤ 0 then len s else if n ≤ len s then len s - n else 0 := by
  simp only [len, drop, List.length_drop]
  by_cases h1 : n ≤ 0
  · simp only [h1, if_true]; omega
  · by_cases h2 : n ≤ (s.length : Int)
    · simp only [h1, h2, if_true, if_false]; omega
    · simp only [h1, h2, if_false]; omega

theorem ax_len_upd (s : Seq) (i v : Int) : len (upd s i v) = len s := by
  unfold upd len
  split <;> simp

/-! ### indexing -/

/-- bridging lemma: `at'` at a natural index. -/
theorem at'_nat (s : Seq) (j : Nat) : at' s (j : Int) = s.getD j 0 := by
  simp [at']
  omega

theorem at'_neg (s : Seq) (i : Int) (h : i < 0) : at' s i = 0 := by
  simp [at', h]

theorem at'_nonneg (s : Seq) (i : Int) (h : 0 ≤ i) : at' s i = s.getD i.toNat 0 := by
  have : ¬ i < 0 := by omega
  simp [at', this]

theorem ax_at_cat (a b : Seq) (i : Int) :
    at' (cat a b) i = if i < len a then at' a i else at' b (i - len a) := by
  by_cases hi : i < 0
  · have : i < len a := by have := ax_len_nonneg a; omega
    simp [this, at'_neg, hi]
  · have hi0 : 0 ≤ i := by omega
    obtain ⟨j, rfl⟩ := Int.eq_ofNat_of_zero_le hi0
    simp only [len, cat]
    by_cases hj : j < a.length
    · have : (j : Int) < (a.length : Int) := by omega
      simp only [this, if_true, at'_nat]
      simp [List.getD_eq_getElem?_getD, List.getElem?_append_left hj]
    · have : ¬ (j : Int) < (a.length : Int) := by omega
      simp only [this, if_false]
      have e : (j : Int) - (a.length : Int) = ((j - a.length : Nat) : Int) := by omega
      rw [e, at'_nat, at'_nat]
      simp [List.getD_eq_getElem?_getD, List.getElem?_append_right (Nat.le_of_not_lt hj)]

theorem ax_at_unit (x : Int) : at' (unit x) 0 = x := by
  simp [at', unit]

theorem ax_at_unit_i (x i : Int) : i = 0 → at' (unit x) i = x := by
  intro h; subst h; exact ax_at_unit x

theorem ax_at_rep (b n i : Int) : 0 ≤ i ∧ i < n → at' (rep b n) i = b := by
  intro ⟨h0, h1⟩
  rw [at'_nonneg _ _ h0]
  have : i.toNat < n.toNat := by omega
  simp [rep, List.getD_eq_getElem?_getD, this]

theorem ax_at_take (s : Seq) (n i : Int) : 0 ≤ i ∧ i < n → at' (take s n) i = at' s i := by
  intro ⟨h0, h1⟩
  rw [at'_nonneg _ _ h0, at'_nonneg _ _ h0]
  have : i.toNat < n.toNat := by omega
  simp [take, List.getD_eq_getElem?_getD, this]

theorem ax_at_drop (s : Seq) (n i : Int) : 0 ≤ n ∧ 0 ≤ i → at' (drop s n) i = at' s (i + n) := by
  intro ⟨hn, hi⟩
  rw [at'_nonneg _ _ hi, at'_nonneg _ _ (by omega)]
  have : (i + n).toNat = n.toNat + i.toNat := by omega
  simp [drop, List.getD_eq_getElem?_getD, List.getElem?_drop, this]

theorem ax_at_upd (s : Seq) (i v j : Int) :
    at' (upd s i v) j = if i = j ∧ 0 ≤ i ∧ i < len s then v else at' s j := by
  unfold upd len
  by_cases hr : 0 ≤ i ∧ i < (s.length : Int)
  · simp only [hr, if_true, and_true]
    by_cases hij : i = j
    · subst hij
      simp only [if_true]
      rw [at'_nonneg _ _ hr.1]
      have : i.toNat < s.length := by omega
      simp [List.getD_eq_getElem?_getD, this]
    · simp only [hij, if_false]
      by_cases hj : j < 0
      · simp [at'_neg, hj]
      · rw [at'_nonneg _ _ (by omega), at'_nonneg _ _ (by omega)]
        have : i.toNat ≠ j.toNat := by omega
        simp [List.getD_eq_getElem?_getD, this]
  · have : ¬ (i = j ∧ 0 ≤ i ∧ i < (s.length : Int)) := fun h => hr h.2
    rw [if_neg hr, if_neg this]

/-! ### concatenation -/

theorem ax_cat_empty_l (a : Seq) : cat empty a = a := rfl

theorem ax_cat_empty_r (a : Seq) : cat a empty = a := by
  simp [cat, empty]

theorem ax_cat_assoc (a b c : Seq) : cat (cat a b) c = cat a (cat b c) := by
  simp [cat]

/-! ### take / drop -/

theorem ax_take_0 (s : Seq) (n : Int) : n ≤ 0 → take s n = empty := by
  intro h
  have : n.toNat = 0 := by omega
  simp [take, empty, this]

theorem ax_take_all (s : Seq) (n : Int) : len s ≤ n → take s n = s := by
  intro h
  simp only [len] at h
  have : s.length ≤ n.toNat := by omega
  simp [take, List.take_of_length_le this]

theorem ax_drop_0 (s : Seq) (n : Int) : n ≤ 0 → drop s n = s := by
  intro h
  have : n.toNat = 0 := by omega
  simp [drop, this]

theorem ax_drop_all (s : Seq) (n : Int) : len s ≤ n → drop s n = empty := by
  intro h
  simp only [len] at h
  have : s.length ≤ n.toNat := by omega
  simp [drop, empty, List.drop_of_length_le this]

theorem ax_take_cat (a b : Seq) (n : Int) :
    take (cat a b) n = if n ≤ len a then take a n else cat a (take b (n - len a)) := by
  simp only [take, cat, len, List.take_append]
  by_cases h : n ≤ (a.length : Int)
  · have h' : n.toNat - a.length = 0 := by omega
    simp [h, h']
  · have h1 : a.length ≤ n.toNat := by omega
    have h2 : (n - (a.length : Int)).toNat = n.toNat - a.length := by omega
    simp [h, h2, List.take_of_length_le h1]

theorem ax_drop_cat (a b : Seq) (n : Int) :
    drop (cat a b) n = if n ≤ len a then cat (drop a n) b else drop b (n - len a) := by
  simp only [drop, cat, len, List.drop_append]
  by_cases h : n ≤ (a.length : Int)
  · have h' : n.toNat - a.length = 0 := by omega
    simp [h, h']
  · have h1 : a.length ≤ n.toNat := by omega
    have h2 : (n - (a.length : Int)).toNat = n.toNat - a.length := by omega
    simp [h, h2, List.drop_of_length_le h1]

theorem ax_take_drop (s : Seq) (n : Int) : cat (take s n) (drop s n) = s := by
  simp [cat, take, drop]

theorem ax_drop_drop (s : Seq) (m n : Int) :
    0 ≤ m ∧ 0 ≤ n → drop (drop s m) n = drop s (m + n) := by
  intro ⟨hm, hn⟩
  have : (m + n).toNat = m.toNat + n.toNat := by omega
  simp [drop, List.drop_drop, this]

theorem ax_take_take (s : Seq) (m n : Int) : n ≤ m → take (take s m) n = take s n := by
  intro h
  have : min n.toNat m.toNat = n.toNat := by omega
  simp [take, List.take_take, this]

theorem ax_upd_split (s : Seq) (i v : Int) :
    0 ≤ i ∧ i < len s → upd s i v = cat (take s i) (cat (unit v) (drop s (i + 1))) := by
  intro h
  simp only [len] at h
  have h1 : (i + 1).toNat = i.toNat + 1 := by omega
  have h2 : i.toNat < s.length := by omega
  simp only [upd, h, and_self, if_true, cat, take, unit, drop, h1]
  rw [List.set_eq_take_append_cons_drop]
  simp [h2]

theorem ax_rep_0 (b n : Int) : n ≤ 0 → rep b n = empty := by
  intro h
  have : n.toNat = 0 := by omega
  simp [rep, empty, this]

theorem ax_rep_unfold (b n : Int) : 0 < n → rep b n = cat (unit b) (rep b (n - 1)) := by
  intro h
  have : n.toNat = (n - 1).toNat + 1 := by omega
  simp only [rep, cat, unit]
  rw [this, List.replicate_succ]
  rfl

theorem ax_seq_unfold (s : Seq) : 0 < len s → s = cat (unit (at' s 0)) (drop s 1) := by
  intro h
  cases s with
  | nil => simp [len] at h
  | cons x xs => simp [cat, unit, drop, at']

/-! ### extensionality -/

def eqseq (a b : Seq) : Prop := a = b

theorem ax_eqseq_def (a b : Seq) : eqseq a b ↔ a = b := Iff.rfl

theorem ax_ext (a b : Seq) :
    (len a = len b ∧ ∀ i : Int, 0 ≤ i ∧ i < len a → at' a i = at' b i) → eqseq a b := by
  intro ⟨hl, hat⟩
  simp only [len] at hl hat
  have hl' : a.length = b.length := by omega
  apply List.ext_getElem hl'
  intro j h1 h2
  have := hat (j : Int) ⟨by omega, by omega⟩
  rw [at'_nat, at'_nat] at this
  simpa [List.getD_eq_getElem?_getD, h1, h2] using this

/-! ### bytes -/

theorem ax_bytes_at (s : Seq) (i : Int) :
    bytes s ∧ 0 ≤ i ∧ i < len s → isbyte (at' s i) := by
  intro ⟨hb, h0, h1⟩
  simp only [len] at h1
  have h2 : i.toNat < s.length := by omega
  rw [at'_nonneg _ _ h0]
  have : s.getD i.toNat 0 = s[i.toNat] := by
    simp [List.getD_eq_getElem?_getD, h2]
  rw [this]
  exact hb _ (List.getElem_mem h2)

theorem ax_bytes_empty : bytes empty := by
  intro x hx; cases hx

theorem ax_bytes_cat (a b : Seq) : bytes (cat a b) ↔ (bytes a ∧ bytes b) := by
  simp only [bytes, cat, List.mem_append]
  constructor
  · intro h; exact ⟨fun x hx => h x (Or.inl hx), fun x hx => h x (Or.inr hx)⟩
  · intro ⟨ha, hb⟩ x hx; cases hx with
    | inl h => exact ha x h
    | inr h => exact hb x h

theorem ax_bytes_take (s : Seq) (n : Int) : bytes s → bytes (take s n) := by
  intro h x hx; exact h x (List.mem_of_mem_take hx)

theorem ax_bytes_drop (s : Seq) (n : Int) : bytes s → bytes (drop s n) := by
  intro h x hx; exact h x (List.mem_of_mem_drop hx)

theorem ax_bytes_rep (b n : Int) : isbyte b → bytes (rep b n) := by
  intro h x hx
  simp only [rep, List.mem_replicate] at hx
  rw [hx.2]; exact h

theorem ax_bytes_unit (b : Int) : bytes (unit b) ↔ isbyte b := by
  simp [bytes, unit, isbyte]

/-! ### folds -/

section Flat
variable (elem : Int → Int → Seq)

theorem ax_flat_done (k : Int) (s : Seq) (i n : Int) : i ≥ n → flat elem k s i n = empty := by
  intro h
  have : (n - i).toNat = 0 := by omega
  simp [flat, this, flatAux, empty]

theorem ax_flat_step (k : Int) (s : Seq) (i n : Int) :
    i < n → flat elem k s i n = cat (elem k (at' s i)) (flat elem k s (i + 1) n) := by
  intro h
  have h1 : (n - i).toNat = (n - (i + 1)).toNat + 1 := by omega
  simp only [flat, cat]
  rw [h1, flatAux]

end Flat

/-! ### byte sum -/

theorem ax_bsum_0 (s : Seq) (n : Int) : n ≤ 0 → bsum s n = 0 := by
  intro h
  have : n.toNat = 0 := by omega
  simp [bsum, this, bsumN]

theorem ax_bsum_step (s : Seq) (n : Int) :
    0 < n → bsum s n = bsum s (n - 1) + at' s (n - 1) := by
  intro h
  have h1 : n.toNat = (n - 1).toNat + 1 := by omega
  have h2 : (((n - 1).toNat : Nat) : Int) = n - 1 := by omega
  simp only [bsum]
  rw [h1, bsumN, h2]

/-! ### `fixed` (define-fun in the prelude): sanity lemmas -/

theorem len_fixed (s : Seq) (n pad side : Int) : 0 ≤ n → len (fixed s n pad side) = n := by
  intro hn
  unfold fixed
  by_cases h : len s > n
  · rw [if_pos h, ax_len_take]
    have h1 : ¬ n ≤ 0 ∨ n = 0 := by omega
    have h2 : n ≤ len s := by omega
    by_cases h0 : n ≤ 0
    · rw [if_pos h0]; omega
    · rw [if_neg h0, if_pos h2]
  · rw [if_neg h]
    have hr : len (rep pad (n - len s)) = n - len s := by
      rw [ax_len_rep, if_pos (by omega)]
    by_cases hs : side = 1
    · rw [if_pos hs, ax_len_cat, hr]; omega
    · rw [if_neg hs, ax_len_cat, hr]; omega

theorem bytes_fixed (s : Seq) (n pad side : Int) :
    bytes s → isbyte pad → bytes (fixed s n pad side) := by
  intro hs hp
  unfold fixed
  by_cases h : len s > n
  · rw [if_pos h]; exact ax_bytes_take s n hs
  · rw [if_neg h]
    by_cases h1 : side = 1
    · rw [if_pos h1]; exact (ax_bytes_cat _ _).2 ⟨ax_bytes_rep pad _ hp, hs⟩
    · rw [if_neg h1]; exact (ax_bytes_cat _ _).2 ⟨hs, ax_bytes_rep pad _ hp⟩

end GocvPrelude
