; gocv prelude: finite sequences of Int (Dafny/Boogie style, one-directional rewrite axioms),
; scalar encoders, fixed-width text, folds. Every axiom here is either definitional
; (introduces a symbol by its defining equations) or listed in /verif/prelude/AXIOMS.md with
; its justification (Lean-checked, BV-checked, or trusted).
(declare-sort BSeq 0)
(declare-fun len (BSeq) Int)
(declare-fun at (BSeq Int) Int)
(declare-fun empty () BSeq)
(declare-fun cat (BSeq BSeq) BSeq)
(declare-fun take (BSeq Int) BSeq)
(declare-fun drop (BSeq Int) BSeq)
(declare-fun unit (Int) BSeq)
(declare-fun rep (Int Int) BSeq)
(declare-fun upd (BSeq Int Int) BSeq)
(declare-fun hint (Int) Bool)
(declare-fun hints (BSeq) Bool)

; --- length
(assert (! (forall ((s BSeq)) (! (<= 0 (len s)) :pattern ((len s)))) :named ax_len_nonneg))
(assert (! (= (len empty) 0) :named ax_len_empty))
(assert (! (forall ((s BSeq)) (! (=> (= (len s) 0) (= s empty)) :pattern ((len s)))) :named ax_len0_empty))
(assert (! (forall ((a BSeq) (b BSeq)) (! (= (len (cat a b)) (+ (len a) (len b))) :pattern ((len (cat a b))) :pattern ((cat a b)))) :named ax_len_cat))
(assert (! (forall ((x Int)) (! (= (len (unit x)) 1) :pattern ((unit x)))) :named ax_len_unit))
(assert (! (forall ((b Int) (n Int)) (! (= (len (rep b n)) (ite (<= 0 n) n 0)) :pattern ((rep b n)))) :named ax_len_rep))
(assert (! (forall ((s BSeq) (n Int)) (! (= (len (take s n)) (ite (<= n 0) 0 (ite (<= n (len s)) n (len s)))) :pattern ((take s n)))) :named ax_len_take))
(assert (! (forall ((s BSeq) (n Int)) (! (= (len (drop s n)) (ite (<= n 0) (len s) (ite (<= n (len s)) (- (len s) n) 0))) :pattern ((drop s n)))) :named ax_len_drop))
(assert (! (forall ((s BSeq) (i Int) (v Int)) (! (= (len (upd s i v)) (len s)) :pattern ((upd s i v)))) :named ax_len_upd))

; --- indexing
(assert (! (forall ((a BSeq) (b BSeq) (i Int)) (! (= (at (cat a b) i) (ite (< i (len a)) (at a i) (at b (- i (len a))))) :pattern ((at (cat a b) i)))) :named ax_at_cat))
(assert (! (forall ((x Int)) (! (= (at (unit x) 0) x) :pattern ((unit x)))) :named ax_at_unit))
(assert (! (forall ((x Int) (i Int)) (! (=> (= i 0) (= (at (unit x) i) x)) :pattern ((at (unit x) i)))) :named ax_at_unit_i))
(assert (! (forall ((b Int) (n Int) (i Int)) (! (=> (and (<= 0 i) (< i n)) (= (at (rep b n) i) b)) :pattern ((at (rep b n) i)))) :named ax_at_rep))
(assert (! (forall ((s BSeq) (n Int) (i Int)) (! (=> (and (<= 0 i) (< i n)) (= (at (take s n) i) (at s i))) :pattern ((at (take s n) i)))) :named ax_at_take))
(assert (! (forall ((s BSeq) (n Int) (i Int)) (! (=> (and (<= 0 n) (<= 0 i)) (= (at (drop s n) i) (at s (+ i n)))) :pattern ((at (drop s n) i)))) :named ax_at_drop))
(assert (! (forall ((s BSeq) (i Int) (v Int) (j Int)) (! (= (at (upd s i v) j) (ite (and (= i j) (<= 0 i) (< i (len s))) v (at s j))) :pattern ((at (upd s i v) j)))) :named ax_at_upd))

; --- concatenation: unit laws and right-association (one direction only)
(assert (! (forall ((a BSeq)) (! (= (cat empty a) a) :pattern ((cat empty a)))) :named ax_cat_empty_l))
(assert (! (forall ((a BSeq)) (! (= (cat a empty) a) :pattern ((cat a empty)))) :named ax_cat_empty_r))
(assert (! (forall ((a BSeq) (b BSeq) (c BSeq)) (! (= (cat (cat a b) c) (cat a (cat b c))) :pattern ((cat (cat a b) c)))) :named ax_cat_assoc))

; --- take / drop over concatenation (rewrite towards the parts)
(assert (! (forall ((s BSeq) (n Int)) (! (=> (<= n 0) (= (take s n) empty)) :pattern ((take s n)))) :named ax_take_0))
(assert (! (forall ((s BSeq) (n Int)) (! (=> (<= (len s) n) (= (take s n) s)) :pattern ((take s n)))) :named ax_take_all))
(assert (! (forall ((s BSeq) (n Int)) (! (=> (<= n 0) (= (drop s n) s)) :pattern ((drop s n)))) :named ax_drop_0))
(assert (! (forall ((s BSeq) (n Int)) (! (=> (<= (len s) n) (= (drop s n) empty)) :pattern ((drop s n)))) :named ax_drop_all))
(assert (! (forall ((a BSeq) (b BSeq) (n Int)) (! (= (take (cat a b) n) (ite (<= n (len a)) (take a n) (cat a (take b (- n (len a)))))) :pattern ((take (cat a b) n)))) :named ax_take_cat))
(assert (! (forall ((a BSeq) (b BSeq) (n Int)) (! (= (drop (cat a b) n) (ite (<= n (len a)) (cat (drop a n) b) (drop b (- n (len a))))) :pattern ((drop (cat a b) n)))) :named ax_drop_cat))
(assert (! (forall ((s BSeq) (n Int)) (! (= (cat (take s n) (drop s n)) s) :pattern ((cat (take s n) (drop s n))))) :named ax_take_drop))
(assert (! (forall ((s BSeq) (m Int) (n Int)) (! (=> (and (<= 0 m) (<= 0 n)) (= (drop (drop s m) n) (drop s (+ m n)))) :pattern ((drop (drop s m) n)))) :named ax_drop_drop))
(assert (! (forall ((s BSeq) (m Int) (n Int)) (! (=> (<= n m) (= (take (take s m) n) (take s n))) :pattern ((take (take s m) n)))) :named ax_take_take))
(assert (! (forall ((s BSeq) (i Int) (v Int)) (! (=> (and (<= 0 i) (< i (len s))) (= (upd s i v) (cat (take s i) (cat (unit v) (drop s (+ i 1)))))) :pattern ((upd s i v)))) :named ax_upd_split))
(assert (! (forall ((b Int) (n Int)) (! (=> (<= n 0) (= (rep b n) empty)) :pattern ((rep b n)))) :named ax_rep_0))
(assert (! (forall ((b Int) (n Int)) (! (=> (< 0 n) (= (rep b n) (cat (unit b) (rep b (- n 1))))) :pattern ((hints (rep b n))))) :named ax_rep_unfold))
(assert (! (forall ((s BSeq)) (! (=> (< 0 (len s)) (= s (cat (unit (at s 0)) (drop s 1)))) :pattern ((hints s)))) :named ax_seq_unfold))

; --- extensionality, guarded by the marker eqseq (the generator wraps goals that need it)
(declare-fun eqseq (BSeq BSeq) Bool)
(assert (! (forall ((a BSeq) (b BSeq)) (! (= (eqseq a b) (= a b)) :pattern ((eqseq a b)))) :named ax_eqseq_def))
(assert (! (forall ((a BSeq) (b BSeq)) (! (=> (and (= (len a) (len b)) (forall ((i Int)) (! (=> (and (<= 0 i) (< i (len a))) (= (at a i) (at b i))) :pattern ((at a i)) :pattern ((at b i))))) (eqseq a b)) :pattern ((eqseq a b)))) :named ax_ext))

; --- bytes
(define-fun isbyte ((x Int)) Bool (and (<= 0 x) (< x 256)))
(declare-fun bytes (BSeq) Bool)   ; every element is a byte
(assert (! (forall ((s BSeq) (i Int)) (! (=> (and (bytes s) (<= 0 i) (< i (len s))) (isbyte (at s i))) :pattern ((bytes s) (at s i)))) :named ax_bytes_at))
(assert (! (bytes empty) :named ax_bytes_empty))
(assert (! (forall ((a BSeq) (b BSeq)) (! (= (bytes (cat a b)) (and (bytes a) (bytes b))) :pattern ((bytes (cat a b))))) :named ax_bytes_cat))
(assert (! (forall ((s BSeq) (n Int)) (! (=> (bytes s) (bytes (take s n))) :pattern ((bytes (take s n))))) :named ax_bytes_take))
(assert (! (forall ((s BSeq) (n Int)) (! (=> (bytes s) (bytes (drop s n))) :pattern ((bytes (drop s n))))) :named ax_bytes_drop))
(assert (! (forall ((b Int) (n Int)) (! (=> (isbyte b) (bytes (rep b n))) :pattern ((bytes (rep b n))))) :named ax_bytes_rep))
(assert (! (forall ((b Int)) (! (= (bytes (unit b)) (isbyte b)) :pattern ((bytes (unit b))))) :named ax_bytes_unit))

; --- scalar encoders: enc(order, width, x) with order 0 = big-endian, 1 = little-endian;
;     x is the unsigned bit pattern in [0, 256^width). The inverse laws are the transport of
;     bit-vector theorems (lemmas/encdec_bv.smt2, checked every thorough run).
(declare-fun enc (Int Int Int) BSeq)
(declare-fun dec (Int Int BSeq) Int)
(declare-fun pow256 (Int) Int)
(assert (and (= (pow256 1) 256) (= (pow256 2) 65536) (= (pow256 4) 4294967296) (= (pow256 8) 18446744073709551616)))
(define-fun okw ((w Int)) Bool (or (= w 1) (= w 2) (= w 4) (= w 8)))
(assert (! (forall ((o Int) (w Int) (x Int)) (! (=> (okw w) (and (= (len (enc o w x)) w) (bytes (enc o w x)))) :pattern ((enc o w x)))) :named ax_enc_len))
(assert (! (forall ((o Int) (w Int) (x Int)) (! (=> (and (okw w) (<= 0 x) (< x (pow256 w))) (= (dec o w (enc o w x)) x)) :pattern ((enc o w x)))) :named ax_dec_enc))
(assert (! (forall ((o Int) (w Int) (s BSeq)) (! (=> (and (okw w) (= (len s) w) (bytes s)) (and (= (enc o w (dec o w s)) s) (<= 0 (dec o w s)) (< (dec o w s) (pow256 w)))) :pattern ((dec o w s)))) :named ax_enc_dec))
(assert (! (forall ((o Int) (x Int)) (! (=> (isbyte x) (= (enc o 1 x) (unit x))) :pattern ((enc o 1 x)))) :named ax_enc_1))

; --- fixed-width text: fixed(s, N, pad, side) with side 0 = pad on the right, 1 = pad on the left
(define-fun fixed ((s BSeq) (n Int) (pad Int) (side Int)) BSeq
  (ite (> (len s) n) (take s n)
       (ite (= side 1) (cat (rep pad (- n (len s))) s) (cat s (rep pad (- n (len s)))))))

; --- folds over element kinds: flat(kind, s, i, n) = elem(kind, s[i]) ++ ... ++ elem(kind, s[n-1])
(declare-fun elem (Int Int) BSeq)
(declare-fun flat (Int BSeq Int Int) BSeq)
(assert (! (forall ((k Int) (s BSeq) (i Int) (n Int)) (! (=> (>= i n) (= (flat k s i n) empty)) :pattern ((flat k s i n)))) :named ax_flat_done))
(assert (! (forall ((k Int) (s BSeq) (i Int) (n Int)) (! (=> (< i n) (= (flat k s i n) (cat (elem k (at s i)) (flat k s (+ i 1) n)))) :pattern ((flat k s i n)))) :named ax_flat_step))
; element kinds are Int codes built by these injective constructors
(declare-fun k_enc (Int Int) Int)          ; scalar element: order, width           elem = enc(o,w,x)
(declare-fun k_fix (Int Int Int) Int)      ; fixed text: N, pad, side               elem = fixed(unbox x, N, pad, side)
(declare-fun k_pstr (Int Int) Int)         ; length-prefixed text: order, width     elem = enc(o,w,len) ++ unbox x
(declare-fun k_obj (Int) Int)              ; message part of dynamic type tag       elem = Wd(tag, x)
(declare-fun k_encs (Int Int) Int)         ; signed scalar element: the value is reduced to its bit pattern first
(assert (! (forall ((o Int) (x Int)) (! (= (elem (k_encs o 1) x) (enc o 1 (mod x 256))) :pattern ((elem (k_encs o 1) x)))) :named ax_elem_encs1))
(assert (! (forall ((o Int) (x Int)) (! (= (elem (k_encs o 2) x) (enc o 2 (mod x 65536))) :pattern ((elem (k_encs o 2) x)))) :named ax_elem_encs2))
(assert (! (forall ((o Int) (x Int)) (! (= (elem (k_encs o 4) x) (enc o 4 (mod x 4294967296))) :pattern ((elem (k_encs o 4) x)))) :named ax_elem_encs4))
(assert (! (forall ((o Int) (x Int)) (! (= (elem (k_encs o 8) x) (enc o 8 (mod x 18446744073709551616))) :pattern ((elem (k_encs o 8) x)))) :named ax_elem_encs8))
(declare-fun sbox (BSeq) Int)
(declare-fun sunbox (Int) BSeq)
(assert (! (forall ((s BSeq)) (! (= (sunbox (sbox s)) s) :pattern ((sbox s)))) :named ax_box))
(assert (! (forall ((x Int)) (! (= (sbox (sunbox x)) x) :pattern ((sunbox x)))) :named ax_unbox))
(declare-fun minwidth (Int) Int)
(assert (! (forall ((t Int)) (! (<= 0 (minwidth t)) :pattern ((minwidth t)))) :named ax_minwidth_nonneg))
(declare-fun Wd (Int Int) BSeq)             ; wire image of a message part: type tag, abstract value
(assert (! (forall ((o Int) (w Int) (x Int)) (! (= (elem (k_enc o w) x) (enc o w x)) :pattern ((elem (k_enc o w) x)))) :named ax_elem_enc))
(assert (! (forall ((n Int) (p Int) (sd Int) (x Int)) (! (= (elem (k_fix n p sd) x) (fixed (sunbox x) n p sd)) :pattern ((elem (k_fix n p sd) x)))) :named ax_elem_fix))
(assert (! (forall ((o Int) (w Int) (x Int)) (! (= (elem (k_pstr o w) x) (cat (enc o w (len (sunbox x))) (sunbox x))) :pattern ((elem (k_pstr o w) x)))) :named ax_elem_pstr))
(assert (! (forall ((t Int) (x Int)) (! (= (elem (k_obj t) x) (Wd t x)) :pattern ((elem (k_obj t) x)))) :named ax_elem_obj))

; --- checksums (spec functions)
; bsum(s, n) = s[0] + ... + s[n-1]
(declare-fun bsum (BSeq Int) Int)
(assert (! (forall ((s BSeq) (n Int)) (! (=> (<= n 0) (= (bsum s n) 0)) :pattern ((bsum s n)))) :named ax_bsum_0))
(assert (! (forall ((s BSeq) (n Int)) (! (=> (< 0 n) (= (bsum s n) (+ (bsum s (- n 1)) (at s (- n 1))))) :pattern ((bsum s n)))) :named ax_bsum_step))
; reflected CRC-16 (poly 0xA001, as the code computes it): xor16 is bitwise exclusive-or on 16-bit values
(declare-fun xor16 (Int Int) Int)
(assert (! (forall ((a Int) (b Int)) (! (=> (and (<= 0 a) (< a 65536) (<= 0 b) (< b 65536)) (and (<= 0 (xor16 a b)) (< (xor16 a b) 65536))) :pattern ((xor16 a b)))) :named ax_xor16_range))
(define-fun crcbit ((c Int)) Int (ite (= (mod c 2) 1) (xor16 (div c 2) 40961) (div c 2)))
(declare-fun crcbits (Int Int) Int)   ; crcbits(c, i): i single-bit steps applied to c
(assert (! (forall ((c Int) (i Int)) (! (=> (<= i 0) (= (crcbits c i) c)) :pattern ((crcbits c i)))) :named ax_crcbits_0))
(assert (! (forall ((c Int) (i Int)) (! (=> (< 0 i) (= (crcbits c i) (crcbit (crcbits c (- i 1))))) :pattern ((crcbits c i)))) :named ax_crcbits_step))
(declare-fun crc16r (BSeq Int) Int)   ; crc16r(s, n): reflected CRC-16 register after the first n bytes of s, init 0xFFFF
(assert (! (forall ((s BSeq) (n Int)) (! (=> (<= n 0) (= (crc16r s n) 65535)) :pattern ((crc16r s n)))) :named ax_crc16r_0))
(assert (! (forall ((s BSeq) (n Int)) (! (=> (< 0 n) (= (crc16r s n) (crcbits (xor16 (crc16r s (- n 1)) (at s (- n 1))) 8))) :pattern ((crc16r s n)))) :named ax_crc16r_step))
(declare-fun crc32_ieee (BSeq) Int)
