#!/bin/bash
# Builds the verifier from files on disk only (offline). The tool module says `go 1.24.2`, so the
# toolchain cached for /repo is selected; x/tools v0.29.0 comes from the module cache.
set -e
cd "$(dirname "$0")"
export GOFLAGS=-mod=mod GOPROXY=off
unset GOSUMDB GOTOOLCHAIN || true
rm -rf .cache/smt
mkdir -p bin evidence/replay
(cd cmd && go build -o ../bin/gocv ./gocv)
# the contract files in /repo (hook commit) and their mirror must agree when both exist
for f in $(cd contracts/mirror && find . -name zz_contracts_verif.go); do
  if [ -f "/repo/$f" ] && ! cmp -s "contracts/mirror/$f" "/repo/$f"; then
    echo "setup: /repo/$f differs from its mirror under /verif/contracts/mirror" >&2
    exit 1
  fi
done
# the prelude must at least be accepted (and not refuted) by the solvers
for z in /usr/bin/z3 z3-new; do
  r=$( (cat prelude/prelude.smt2; echo "(check-sat)") | $z -in -T:10 smt.mbqi=false 2>&1 | head -1)
  if [ "$r" = "unsat" ]; then echo "setup: prelude is inconsistent according to $z" >&2; exit 1; fi
done
# the sequence axioms of the prelude are theorems about List Int (Lean 4 core, ~2 s)
if command -v lean >/dev/null 2>&1; then
  if ! lean prelude/Prelude.lean >/tmp/verif-lean.$$ 2>&1; then
    echo "setup: prelude/Prelude.lean does not check:" >&2; head -20 /tmp/verif-lean.$$ >&2; rm -f /tmp/verif-lean.$$; exit 1
  fi
  rm -f /tmp/verif-lean.$$
  if grep -v "^ *Check:" prelude/Prelude.lean | grep -qw sorry; then echo "setup: Prelude.lean contains sorry" >&2; exit 1; fi
  # the remaining axioms (scalar encoders, element kinds, boxing, CRC recursions) hold in one concrete model
  # (Lean 4 + three Mathlib modules; ~3 s warm, ~45 s the first time)
  if ! lean prelude/Model.lean >/tmp/verif-lean.$$ 2>&1; then
    echo "setup: prelude/Model.lean does not check:" >&2; head -20 /tmp/verif-lean.$$ >&2; rm -f /tmp/verif-lean.$$; exit 1
  fi
  rm -f /tmp/verif-lean.$$
  if grep -E '^\s*(axiom|sorry|admit)\b|native_decide' prelude/Model.lean | grep -v '^ *--' | grep -qv 'NOT native_decide\|No `sorry`'; then echo "setup: Model.lean contains sorry/axiom/native_decide" >&2; exit 1; fi
  # every named axiom of the prelude is a theorem of that name in one of the two files
  for a in $(grep -o ':named ax_[a-z0-9_]*' prelude/prelude.smt2 | sed 's/:named //'); do
    grep -qE "^(theorem|lemma) $a\b" prelude/Prelude.lean prelude/Model.lean || { echo "setup: prelude axiom $a has no Lean theorem" >&2; exit 1; }
  done
fi
echo "setup ok"
