; lemma crc16_check: the reflected algorithm gives the published check value 0x4B37 on "123456789"
(set-logic QF_BV)
(define-fun rbit ((c (_ BitVec 16))) (_ BitVec 16) (ite (= ((_ extract 0 0) c) #b1) (bvxor (bvlshr c #x0001) #xA001) (bvlshr c #x0001)))
(define-fun r8 ((c (_ BitVec 16))) (_ BitVec 16) (rbit (rbit (rbit (rbit (rbit (rbit (rbit (rbit c)))))))))
(assert (not (= (r8 (bvxor (r8 (bvxor (r8 (bvxor (r8 (bvxor (r8 (bvxor (r8 (bvxor (r8 (bvxor (r8 (bvxor (r8 (bvxor #xFFFF #x0031)) #x0032)) #x0033)) #x0034)) #x0035)) #x0036)) #x0037)) #x0038)) #x0039)) #x4B37)))
(check-sat)
