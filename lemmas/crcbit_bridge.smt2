; lemma crcbit_bridge: the integer formulation used in the prelude (c mod 2, c div 2, xor16) is the bit-vector step:
; for every 16-bit c: bv2nat(rbit(c)) = ite(c mod 2 = 1, xor(c div 2, 0xA001), c div 2) where div/mod by 2 are lshr / extract.
(set-logic QF_BV)
(define-fun rbit ((c (_ BitVec 16))) (_ BitVec 16) (ite (= ((_ extract 0 0) c) #b1) (bvxor (bvlshr c #x0001) #xA001) (bvlshr c #x0001)))
(declare-fun c () (_ BitVec 16))
(assert (not (= (rbit c) (ite (= (bvurem c #x0002) #x0001) (bvxor (bvudiv c #x0002) #xA001) (bvudiv c #x0002)))))
(check-sat)
