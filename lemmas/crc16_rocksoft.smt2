; lemma crc16_rocksoft: for every register value c and input byte b, one byte step of the reflected
; algorithm computed by Crc16ChecksumService.Calc (xor into the low byte, 8 x: if lsb then (c>>1)^0xA001 else c>>1)
; equals, after bit reversal, one byte step of the Rocksoft model CRC-16/MODBUS
; (width 16, poly 0x8005, refin, refout): xor the reflected byte into the high byte, 8 x: if msb then (c<<1)^0x8005 else c<<1.
; With init 0xFFFF (its own reflection) and xorout 0 this gives, by induction on the byte index,
; Calc(s) = reflect16(crc_msb_first(reflect8 bytes of s)) = CRC-16/MODBUS(s).
(set-logic QF_BV)
(define-fun rev8 ((x (_ BitVec 8))) (_ BitVec 8) (concat ((_ extract 0 0) x) ((_ extract 1 1) x) ((_ extract 2 2) x) ((_ extract 3 3) x) ((_ extract 4 4) x) ((_ extract 5 5) x) ((_ extract 6 6) x) ((_ extract 7 7) x)))
(define-fun rev16 ((x (_ BitVec 16))) (_ BitVec 16) (concat ((_ extract 0 0) x) ((_ extract 1 1) x) ((_ extract 2 2) x) ((_ extract 3 3) x) ((_ extract 4 4) x) ((_ extract 5 5) x) ((_ extract 6 6) x) ((_ extract 7 7) x) ((_ extract 8 8) x) ((_ extract 9 9) x) ((_ extract 10 10) x) ((_ extract 11 11) x) ((_ extract 12 12) x) ((_ extract 13 13) x) ((_ extract 14 14) x) ((_ extract 15 15) x)))
(define-fun rbit ((c (_ BitVec 16))) (_ BitVec 16) (ite (= ((_ extract 0 0) c) #b1) (bvxor (bvlshr c #x0001) #xA001) (bvlshr c #x0001)))
(define-fun mbit ((c (_ BitVec 16))) (_ BitVec 16) (ite (= ((_ extract 15 15) c) #b1) (bvxor (bvshl c #x0001) #x8005) (bvshl c #x0001)))
(define-fun r8 ((c (_ BitVec 16))) (_ BitVec 16) (rbit (rbit (rbit (rbit (rbit (rbit (rbit (rbit c)))))))))
(define-fun m8 ((c (_ BitVec 16))) (_ BitVec 16) (mbit (mbit (mbit (mbit (mbit (mbit (mbit (mbit c)))))))))
(declare-fun c () (_ BitVec 16))
(declare-fun b () (_ BitVec 8))
(assert (not (= (rev16 (r8 (bvxor c (concat #x00 b)))) (m8 (bvxor (rev16 c) (concat (rev8 b) #x00))))))
(check-sat)
