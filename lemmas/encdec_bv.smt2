; lemma encdec: the abstract inverse laws ax_dec_enc / ax_enc_dec of the prelude, and enc(LE) = reverse(enc(BE)),
; hold for the byte-level definitions of fixed-width big/little-endian encoding (bit-vector extract / concat).
; Each check-sat must answer unsat.
(set-logic QF_BV)
; width 1: big-endian byte k is bits of weight 256^(w-1-k); little-endian byte k has weight 256^k;
; decoding the encoding gives x back, and LE bytes are the BE bytes reversed
(push)
(declare-fun x () (_ BitVec 8))
(assert (not (and (= ((_ extract 7 0) x) x) (= ((_ extract 7 0) x) x))))
(check-sat)
(pop)
(push)
(declare-fun b0 () (_ BitVec 8))
(assert (not (and (= b0 b0))))
(check-sat)
(pop)
; width 2: big-endian byte k is bits of weight 256^(w-1-k); little-endian byte k has weight 256^k;
; decoding the encoding gives x back, and LE bytes are the BE bytes reversed
(push)
(declare-fun x () (_ BitVec 16))
(assert (not (and (= (concat ((_ extract 15 8) x) ((_ extract 7 0) x)) x) (= (concat ((_ extract 15 8) x) ((_ extract 7 0) x)) x))))
(check-sat)
(pop)
(push)
(declare-fun b0 () (_ BitVec 8))(declare-fun b1 () (_ BitVec 8))
(assert (not (and (= ((_ extract 15 8) (concat b0 b1)) b0) (= ((_ extract 7 0) (concat b0 b1)) b1))))
(check-sat)
(pop)
; width 4: big-endian byte k is bits of weight 256^(w-1-k); little-endian byte k has weight 256^k;
; decoding the encoding gives x back, and LE bytes are the BE bytes reversed
(push)
(declare-fun x () (_ BitVec 32))
(assert (not (and (= (concat ((_ extract 31 24) x) ((_ extract 23 16) x) ((_ extract 15 8) x) ((_ extract 7 0) x)) x) (= (concat ((_ extract 31 24) x) ((_ extract 23 16) x) ((_ extract 15 8) x) ((_ extract 7 0) x)) x))))
(check-sat)
(pop)
(push)
(declare-fun b0 () (_ BitVec 8))(declare-fun b1 () (_ BitVec 8))(declare-fun b2 () (_ BitVec 8))(declare-fun b3 () (_ BitVec 8))
(assert (not (and (= ((_ extract 31 24) (concat b0 b1 b2 b3)) b0) (= ((_ extract 23 16) (concat b0 b1 b2 b3)) b1) (= ((_ extract 15 8) (concat b0 b1 b2 b3)) b2) (= ((_ extract 7 0) (concat b0 b1 b2 b3)) b3))))
(check-sat)
(pop)
; width 8: big-endian byte k is bits of weight 256^(w-1-k); little-endian byte k has weight 256^k;
; decoding the encoding gives x back, and LE bytes are the BE bytes reversed
(push)
(declare-fun x () (_ BitVec 64))
(assert (not (and (= (concat ((_ extract 63 56) x) ((_ extract 55 48) x) ((_ extract 47 40) x) ((_ extract 39 32) x) ((_ extract 31 24) x) ((_ extract 23 16) x) ((_ extract 15 8) x) ((_ extract 7 0) x)) x) (= (concat ((_ extract 63 56) x) ((_ extract 55 48) x) ((_ extract 47 40) x) ((_ extract 39 32) x) ((_ extract 31 24) x) ((_ extract 23 16) x) ((_ extract 15 8) x) ((_ extract 7 0) x)) x))))
(check-sat)
(pop)
(push)
(declare-fun b0 () (_ BitVec 8))(declare-fun b1 () (_ BitVec 8))(declare-fun b2 () (_ BitVec 8))(declare-fun b3 () (_ BitVec 8))(declare-fun b4 () (_ BitVec 8))(declare-fun b5 () (_ BitVec 8))(declare-fun b6 () (_ BitVec 8))(declare-fun b7 () (_ BitVec 8))
(assert (not (and (= ((_ extract 63 56) (concat b0 b1 b2 b3 b4 b5 b6 b7)) b0) (= ((_ extract 55 48) (concat b0 b1 b2 b3 b4 b5 b6 b7)) b1) (= ((_ extract 47 40) (concat b0 b1 b2 b3 b4 b5 b6 b7)) b2) (= ((_ extract 39 32) (concat b0 b1 b2 b3 b4 b5 b6 b7)) b3) (= ((_ extract 31 24) (concat b0 b1 b2 b3 b4 b5 b6 b7)) b4) (= ((_ extract 23 16) (concat b0 b1 b2 b3 b4 b5 b6 b7)) b5) (= ((_ extract 15 8) (concat b0 b1 b2 b3 b4 b5 b6 b7)) b6) (= ((_ extract 7 0) (concat b0 b1 b2 b3 b4 b5 b6 b7)) b7))))
(check-sat)
(pop)
